# spec.wire -- combinators for wire-format specification functions (clause K6).
# Specification functions are written from the protocol documents over these combinators only; they never call
# repository code, so a mistake made consistently in parse and compose is still caught.
import enum

import z3

from pyvc import values as V, ops, interp as I, spec as S
from pyvc.values import SSeq, SEnum, SObj, SInt, SBool, SCoded, SStr, SFlags


class NoSpec(Exception):
    pass


def seq(x):
    if isinstance(x, SStr):
        return x.seq
    if isinstance(x, str):
        return V.conc_seq(x.encode('ascii'))
    return ops.as_seq(x)


def cat(*parts):
    out = V.conc_seq(b'', 'bytes')
    for p in parts:
        out = V.concat(out, seq(p), 'bytes')
    return out


def num(x):
    """integer value of a field: int, IntEnum member, coded enum member (value.code), coded item"""
    if isinstance(x, SCoded):
        return x.code
    if isinstance(x, SEnum):
        if getattr(x, 'code_hint', None) is not None:
            return x.code_hint
        if issubclass(x.cls, int):
            return ops.as_int(x)
        return V.enum_table(x.cls, x.idx, lambda m: m.value.code)
    if isinstance(x, enum.Enum):
        return z3.IntVal(int(x.value) if isinstance(x.value, int) else x.value.code)
    if isinstance(x, SBool):
        return z3.If(x.e, z3.IntVal(1), z3.IntVal(0))
    if isinstance(x, bool):
        return z3.IntVal(int(x))
    if z3.is_expr(x):
        return x
    if isinstance(x, SObj) and 'code' in x.f:          # a TlsInvalidType* fallback item: its wire code
        return num(x.f['code'])
    return ops.as_int(x)


def be(x, n):
    return S.enc(num(x), n, '!')


def le(x, n):
    return S.enc(num(x), n, '<')


def u8(x):
    return be(x, 1)


def u16(x):
    return be(x, 2)


def u24(x):
    return be(x, 3)


def u32(x):
    return be(x, 4)


def u64(x):
    return be(x, 8)


def vec(width, body):
    """variable-length vector: big-endian length prefix of `width` bytes, then the body (RFC 5246 4.3)"""
    body = seq(body)
    return cat(S.enc(body.n, width, '!'), body)


def flat(codes, width):
    """concatenation of fixed-width big-endian codes"""
    return S.flat_enc(codes, width, '!', 'bytes')


def items_of(vec_obj):
    """the item sequence of a repository vector object"""
    if isinstance(vec_obj, SObj):
        return vec_obj.f['_items']
    return list(vec_obj)


def codes_of(vec_obj):
    """item codes of a vector of coded / numeric items, as an int sequence"""
    it = items_of(vec_obj)
    if isinstance(it, SSeq):
        if it.elem == 'int' or (isinstance(it.elem, tuple) and it.elem[0] == 'coded'):
            return SSeq(it.n, it._at, 'list')
        if isinstance(it.elem, tuple) and it.elem[0] == 'enum':
            ecls = it.elem[1]
            if issubclass(ecls, int):
                return SSeq(it.n, lambda j, at=it._at: V.enum_table(ecls, at(j), lambda m: int(m.value)), 'list')
            return SSeq(it.n, lambda j, at=it._at: V.enum_table(ecls, at(j), lambda m: m.value.code), 'list')
        raise NoSpec('item kind %r' % (it.elem,))
    return V.seq_of_terms([num(x) for x in it], 'list')


def flags_value(fl, shift=0, width=None):
    """OR of the members of a flag set, as a sum over the distinct bits; bits [shift, shift+width) only when width is given"""
    if isinstance(fl, SFlags):
        members = list(fl.bits.items())
    else:
        members = [(m, z3.BoolVal(True)) for m in fl]
    bits = {}
    for m, present in members:
        v = int(m.value) >> shift
        b = 0
        while v:
            if v & 1:
                bits.setdefault(b, []).append(present)
            v >>= 1
            b += 1
    total = z3.IntVal(0)
    for b, conds in bits.items():
        if width is not None and b >= width:
            continue
        total = total + z3.If(z3.Or(*conds), z3.IntVal(2 ** b), z3.IntVal(0))
    return total


def flag_present(fl, member):
    """case split of the specification on the presence of one flag"""
    if isinstance(fl, SFlags):
        from pyvc import engine as E
        return E.cur().branch(fl.bits[member])
    return member in fl


def lift_deep(o, _seen=None):
    """view of an object tree in which native attrs instances (default field values) are SObj like the symbolic ones"""
    import attr
    from cryptoparser.common.base import ArrayBase
    _seen = _seen if _seen is not None else {}
    if id(o) in _seen:
        return _seen[id(o)]
    if isinstance(o, SObj):
        n = SObj(o.cls)
        _seen[id(o)] = n
        for k, v in o.f.items():
            n.f[k] = lift_deep(v, _seen)
        return n
    if isinstance(o, ArrayBase):
        n = SObj(type(o), dict(_items=[lift_deep(x, _seen) for x in o._items], _items_size=o._items_size, param=o.param))
        _seen[id(o)] = n
        return n
    if attr.has(type(o)) and not isinstance(o, enum.Enum):
        n = SObj(type(o))
        _seen[id(o)] = n
        for a in attr.fields(type(o)):
            n.f[a.name] = lift_deep(getattr(o, a.name), _seen)
        return n
    if isinstance(o, list):
        return [lift_deep(x, _seen) for x in o]
    return o


def call_spec(name, obj):
    return SPECS[name](lift_deep(obj))


SPECS = {}          # class name -> spec function(obj) -> byte sequence


def spec(*names):
    def deco(f):
        for n in names:
            SPECS[n] = f
        return f
    return deco


def spec_of(obj):
    """specification encoding of a nested object"""
    if isinstance(obj, SObj):
        f = SPECS.get(obj.cls.__name__)
        if f is None:
            raise NoSpec(obj.cls.__name__)
        return f(obj)
    raise NoSpec(type(obj).__name__)
