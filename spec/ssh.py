# spec.ssh -- SSH wire formats (clause K6, property C07), transcribed from RFC 4251 section 5 (data types), RFC 4253 sections
# 6.6 / 7.1 / 8 / 11 / 12 (key formats, KEXINIT, DH exchange, disconnect, message numbers), RFC 4419 section 3 / 5 (group
# exchange), RFC 5656 section 3.1 (ECDSA keys), RFC 8709 section 4 (Ed25519 / Ed448 keys).
import z3

from pyvc import values as V, ops
from spec.wire import spec, cat, u8, u32, num, seq, SPECS, NoSpec, spec_of


def string(x):
    """RFC 4251 5: string = uint32 length + that many octets"""
    s = seq(x)
    return cat(u32(s.n), s)


# ---- message numbers: RFC 4253 12 and RFC 4419 5 (the specification's own table, not the repository's enumeration)
MSG = dict(DISCONNECT=1, UNIMPLEMENTED=3, KEXINIT=20, NEWKEYS=21, KEXDH_INIT=30, KEXDH_REPLY=31,
           KEX_DH_GEX_GROUP=31, KEX_DH_GEX_INIT=32, KEX_DH_GEX_REPLY=33, KEX_DH_GEX_REQUEST=34)

# RFC 4253 8: byte SSH_MSG_KEXDH_INIT, mpint e   (the library carries e as the octets of the mpint: a string)
SPECS['SshDHKeyExchangeInit'] = lambda o: cat(u8(MSG['KEXDH_INIT']), string(o.f['ephemeral_public_key']))
# RFC 4419 3: byte SSH_MSG_KEX_DH_GEX_INIT, mpint e
SPECS['SshDHGroupExchangeInit'] = lambda o: cat(u8(MSG['KEX_DH_GEX_INIT']), string(o.f['ephemeral_public_key']))
# RFC 4419 3: byte SSH_MSG_KEX_DH_GEX_REQUEST, uint32 min, uint32 n, uint32 max
SPECS['SshDHGroupExchangeRequest'] = lambda o: cat(u8(MSG['KEX_DH_GEX_REQUEST']), u32(o.f['gex_min']), u32(o.f['gex_number']), u32(o.f['gex_max']))
# RFC 4419 3: byte SSH_MSG_KEX_DH_GEX_GROUP, mpint p, mpint g
SPECS['SshDHGroupExchangeGroup'] = lambda o: cat(u8(MSG['KEX_DH_GEX_GROUP']), string(o.f['p']), string(o.f['g']))
# RFC 4253 7.3: byte SSH_MSG_NEWKEYS
SPECS['SshNewKeys'] = lambda o: cat(u8(MSG['NEWKEYS']))
# RFC 4253 11.4: byte SSH_MSG_UNIMPLEMENTED, uint32 packet sequence number of rejected message
SPECS['SshUnimplementedMessage'] = lambda o: cat(u8(MSG['UNIMPLEMENTED']), u32(o.f['sequence_number']))


# RFC 4253 11.1: byte SSH_MSG_DISCONNECT, uint32 reason code, string description (ISO-10646 UTF-8), string language tag --
# both strings are always present, an empty one as the four zero octets of its length
def disconnect(o):
    from spec.tables import TABLES
    r = o.f['reason']
    code = TABLES['SshReasonCode'].get(getattr(r, 'name', None)) if not isinstance(r, V.SEnum) else None
    if isinstance(r, V.SEnum):
        members = list(r.cls)
        code = z3.IntVal(0)
        for i, m in enumerate(members):
            if m.name not in TABLES['SshReasonCode']:
                raise NoSpec('reason code %s' % m.name)
            code = z3.If(r.idx == i, z3.IntVal(TABLES['SshReasonCode'][m.name]), code)
    elif code is None:
        raise NoSpec('reason code')
    return cat(u8(MSG['DISCONNECT']), u32(code), string(o.f['description']), string(o.f['language']))


SPECS['SshDisconnectMessage'] = disconnect


# ---- RFC 4251 5: name-list = uint32 length + comma-separated names (US-ASCII), no trailing comma
def name_list(o):
    items = o.f['_items']
    if not isinstance(items, (list, tuple)):
        raise NoSpec('symbolic name-list')
    parts = []
    for k, it in enumerate(items):
        if k:
            parts.append(V.conc_seq(b',', 'bytes'))
        if isinstance(it, V.SStr):
            parts.append(it.seq)
        elif isinstance(it, str):
            parts.append(V.conc_seq(it.encode('ascii'), 'bytes'))
        elif hasattr(it, 'value') and hasattr(it.value, 'code'):
            parts.append(V.conc_seq(it.value.code.encode('ascii'), 'bytes'))
        else:
            raise NoSpec('name-list item %s' % type(it).__name__)
    body = cat(*parts) if parts else V.conc_seq(b'', 'bytes')
    return cat(u32(body.n), body)


for _n in ('SshKexAlgorithmVector', 'SshHostKeyAlgorithmVector', 'SshEncryptionAlgorithmVector', 'SshMacAlgorithmVector',
           'SshCompressionAlgorithmVector'):
    SPECS[_n] = name_list


# ---- public key blobs. mp(v) is the RFC 4251 mpint of v *as ComposerBinary.compose_ssh_mpint writes it* (the encoding of an
#      integer is C11's subject; here the fields, their order and their framing are)
def mp(v):
    from pyvc import interp as I
    from cryptoparser.common.parse import ComposerBinary
    c = I.construct(ComposerBinary, [], {})
    I.call(I.getattr_(c, 'compose_ssh_mpint'), [v], {})
    return ops.as_seq(I.getattr_(c, 'composed_bytes')).copy('bytes')


def key_name(o):
    a = o.f['host_key_algorithm']
    return string(a.value.code)


# RFC 4253 6.6: string "ssh-rsa", mpint e, mpint n
def host_key_rsa(o, params):
    return cat(key_name(o), mp(params['public_exponent']), mp(params['modulus']))


# RFC 4253 6.6: string "ssh-dss", mpint p, mpint q, mpint g, mpint y
def host_key_dss(o, params):
    return cat(key_name(o), mp(params['prime']), mp(params['order']), mp(params['generator']), mp(params['public_key_value']))


# RFC 5656 3.1: string "ecdsa-sha2-[identifier]", string [identifier], string Q
ECDSA_IDENTIFIER = {'ecdsa-sha2-nistp256': 'nistp256', 'ecdsa-sha2-nistp384': 'nistp384', 'ecdsa-sha2-nistp521': 'nistp521'}


def host_key_ecdsa(o, params):
    name = o.f['host_key_algorithm'].value.code
    if name not in ECDSA_IDENTIFIER:
        raise NoSpec('curve identifier of %s' % name)
    return cat(key_name(o), string(ECDSA_IDENTIFIER[name]), string(params['octet_bit_string']))


# RFC 8709 4: string "ssh-ed25519" / "ssh-ed448", string key
def host_key_eddsa(o, params):
    return cat(key_name(o), string(params['key_data']))


# ---- OpenSSH PROTOCOL.certkeys: the elements of a certificate. "string" is the RFC 4251 string throughout.
# valid principals: the packed list holds one string per principal
SPECS['SshString'] = lambda o: string(o.f['value'])

# critical options and extensions: a sequence of tuples (string name, string data). The data of an option that carries a
# value is ITSELF a packed string (ssh-keygen writes the value with sshbuf_put_cstring into a buffer and that buffer with
# sshbuf_put_stringb; sshd reads it back with sshbuf_froms + sshbuf_get_cstring): a non-empty value has TWO length prefixes.
# Flag options have empty data (one length prefix of zero).
CERT_OPTION_NAME = dict(SshCertExtensionForceCommand='force-command', SshCertExtensionSourceAddress='source-address',
                        SshCertExtensionPermitX11Forwarding='permit-X11-forwarding',
                        SshCertExtensionPermitAgentForwarding='permit-agent-forwarding',
                        SshCertExtensionPermitPortForwarding='permit-port-forwarding', SshCertExtensionPermitPTY='permit-pty',
                        SshCertExtensionPermitUserRC='permit-user-rc')


def _flag_option(name):
    return lambda o: cat(string(name), u32(0))


for _cls, _name in CERT_OPTION_NAME.items():
    if _cls not in ('SshCertExtensionForceCommand', 'SshCertExtensionSourceAddress'):
        SPECS[_cls] = _flag_option(_name)
# an option the library has no class for: name and data verbatim
SPECS['SshCertExtensionUnparsed'] = lambda o: cat(string(o.f['extension_name']), string(o.f['extension_data']))
# force-command: data = string(command)
SPECS['SshCertExtensionForceCommand'] = lambda o: cat(string('force-command'), string(string(o.f['command'])))
