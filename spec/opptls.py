# spec.opptls -- wire formats of the opportunistic-TLS application messages (clause K6, property C09), transcribed from
# the protocol documents: RFC 1006 (TPKT), ISO 8073 / ITU-T X.224 (COTP), [MS-RDPBCGR], MySQL client/server protocol,
# OpenVPN control channel, PostgreSQL frontend/backend protocol.
import z3

from pyvc import values as V, ops
from spec.wire import spec, cat, u8, u16, u32, u64, le, vec, num, seq, flags_value, flag_present, SPECS, NoSpec

# ---- RFC 1006 6: TPKT header: version 3, reserved 0, 16 bit length INCLUDING the 4 header bytes
@spec('TPKT')
def tpkt(o):
    msg = seq(o.f['message'])
    return cat(u8(o.f['version']), u8(0), u16(msg.n + 4), msg)


# ---- X.224 13.3 (CR) / 13.4 (CC) TPDU: LI, code (high nibble; CR = 1110, CC = 1101) + CDT 0000, DST-REF, SRC-REF, class option
def cotp(code):
    def f(o):
        body = cat(u8(code * 16), u16(o.f['dst_ref']), u16(o.f['src_ref']), u8(o.f['class_option']), o.f['user_data'])
        return cat(u8(seq(body).n), body)
    return f


SPECS['COTPConnectionRequest'] = cotp(0xe)
SPECS['COTPConnectionConfirm'] = cotp(0xd)


# ---- [MS-RDPBCGR] 2.2.1.1.1 RDP_NEG_REQ (type 1) / 2.2.1.2.1 RDP_NEG_RSP (type 2): type(1) flags(1) length(2, LE, = 8) protocols(4, LE)
#      flag and protocol values as the document defines them (the specification does not read them from the repository's
#      enumerations, so a value changed consistently for parse and compose is still a difference)
RDP_REQ_FLAGS = dict(RESTRICTED_ADMIN_MODE_REQUIRED=0x01, REDIRECTED_AUTHENTICATION_MODE_REQUIRED=0x02, CORRELATION_INFO_PRESENT=0x08)
RDP_RSP_FLAGS = dict(EXTENDED_CLIENT_DATA_SUPPORTED=0x01, DYNVC_GFX_PROTOCOL_SUPPORTED=0x02, NEGRSP_FLAG_RESERVED=0x04,
                     RESTRICTED_ADMIN_MODE_SUPPORTED=0x08, REDIRECTED_AUTHENTICATION_MODE_SUPPORTED=0x10)
RDP_PROTOCOLS = dict(RDP=0x00000000, SSL=0x00000001, HYBRID=0x00000002, RDSTLS=0x00000004, HYBRID_EX=0x00000008)


def named_flags_value(fl, table):
    """OR of the flags of a set, each flag valued by the document's table (looked up by member name)"""
    from pyvc.values import SFlags
    members = list(fl.bits.items()) if isinstance(fl, SFlags) else [(m, z3.BoolVal(True)) for m in fl]
    total = z3.IntVal(0)
    for m, present in members:
        if m.name not in table:
            raise NoSpec('flag %s has no value in the specification table' % m.name)
        total = total + z3.If(present, z3.IntVal(table[m.name]), z3.IntVal(0))      # the documents assign distinct bits
    return total


def rdp_neg(ptype):
    table = RDP_REQ_FLAGS if ptype == 1 else RDP_RSP_FLAGS
    return lambda o: cat(u8(ptype), u8(named_flags_value(o.f['flags'], table)), le(8, 2),
                         le(named_flags_value(o.f['protocol'], RDP_PROTOCOLS), 4))


SPECS['RDPNegotiationRequest'] = rdp_neg(1)
SPECS['RDPNegotiationResponse'] = rdp_neg(2)


# ---- MySQL protocol packet: int<3> payload_length (little endian), int<1> sequence_id, payload
@spec('MySQLRecord')
def mysql_record(o):
    body = seq(o.f['packet_bytes'])
    return cat(le(body.n, 3), u8(o.f['packet_number']), body)


# ---- PostgreSQL: SSLRequest = Int32(8) Int32(80877103); the server answers with the single byte 'S'
SPECS['SslRequest'] = lambda o: cat(u32(8), u32(80877103))
SPECS['Sync'] = lambda o: cat(u8(ord('S')))


# ---- OpenVPN control channel packet: opcode << 3 | key_id(0), session id (8), ack array length (1), ack ids (4 each) and
#      remote session id (8) when the array is not empty, then packet id (4) [and payload] for non-ACK packets
def openvpn_header(o, opcode):
    ids = o.f['packet_id_array']
    parts = [u8(opcode * 8), u64(o.f['session_id']), u8(len(ids))]
    if len(ids):
        parts += [u32(x) for x in ids]
        parts.append(u64(o.f['remote_session_id']))
    return cat(*parts)


SPECS['OpenVpnPacketAckV1'] = lambda o: openvpn_header(o, 5)
SPECS['OpenVpnPacketControlV1'] = lambda o: cat(openvpn_header(o, 4), u32(o.f['packet_id']), o.f['payload'])
SPECS['OpenVpnPacketHardResetClientV2'] = lambda o: cat(openvpn_header(o, 7), u32(o.f['packet_id']))
SPECS['OpenVpnPacketHardResetServerV2'] = lambda o: cat(openvpn_header(o, 8), u32(o.f['packet_id']))
# OpenVPN over TCP: 16 bit big-endian packet length, then the packet
SPECS['OpenVpnPacketWrapperTcp'] = lambda o: vec(2, o.f['payload'])


# ---- MySQL Protocol::HandshakeV10 (all integers little endian):
#      int<1> protocol version, string<NUL> server version, int<4> thread id, string[8] auth-plugin-data-part-1,
#      int<1> filler 0x00, int<2> capability flags (lower 2 bytes), int<1> character set, int<2> status flags,
#      int<2> capability flags (upper 2 bytes), int<1> length of auth-plugin-data if CLIENT_PLUGIN_AUTH else 0x00,
#      string[10] reserved (all zero), auth-plugin-data-part-2, and string<NUL> auth_plugin_name if CLIENT_PLUGIN_AUTH
def _opt_bytes(x):
    return V.conc_seq(b'', 'bytes') if x is None else seq(x)


@spec('MySQLHandshakeV10')
def mysql_handshake_v10(o):
    from cryptoparser.tls.mysql import MySQLCapability
    caps = o.f['capabilities']
    plugin_auth = flag_present(caps, MySQLCapability.CLIENT_PLUGIN_AUTH)
    part2 = _opt_bytes(o.f['auth_plugin_data_2'])
    parts = [u8(o.f['protocol_version']), seq(o.f['server_version']), u8(0), le(o.f['connection_id'], 4),
             seq(o.f['auth_plugin_data']), u8(0), le(flags_value(caps, 0, 16), 2), u8(o.f['character_set']),
             le(flags_value(o.f['states']), 2), le(flags_value(caps, 16, 16), 2)]
    if plugin_auth:
        parts.append(u8(8 + part2.n))
    else:
        parts.append(u8(0))
    parts += [V.conc_seq(bytes(10), 'bytes'), part2]
    if plugin_auth:
        parts += [seq(o.f['auth_plugin_name']), u8(0)]
    return cat(*parts)


# ---- MySQL Protocol::SSLRequest. With CLIENT_PROTOCOL_41: int<4> capability flags, int<4> max packet size, int<1> character
#      set, string[23] reserved (all zero). Without it (Protocol::HandshakeResponse320 style): int<2> capability flags,
#      int<3> max packet size. All integers little endian; flag values from the specification's own table.
@spec('MySQLHandshakeSslRequest')
def mysql_ssl_request(o):
    from cryptoparser.tls.mysql import MySQLCapability
    from spec.tables import TABLES
    caps = o.f['capabilities']
    value = named_flags_value(caps, TABLES['MySQLCapability'])
    if flag_present(caps, MySQLCapability.CLIENT_PROTOCOL_41):
        return cat(le(value, 4), le(o.f['max_packet_size'], 4), u8(o.f['character_set']), V.conc_seq(bytes(23), 'bytes'))
    return cat(le(value, 2), le(o.f['max_packet_size'], 3))
