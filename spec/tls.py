# spec.tls -- wire formats of SSL/TLS structures, transcribed from the protocol documents (clause K6, property C06).
# Field names are those of the repository's classes; layouts are the RFCs' (cited per function).
import z3

from pyvc import values as V, ops
from spec.wire import (spec, cat, u8, u16, u24, u32, vec, flat, codes_of, items_of, num, seq, spec_of, NoSpec, SPECS)

# IANA extension type numbers (TLS ExtensionType Values registry) -- written here, not read from the library
EXT = dict(server_name=0, status_request=5, supported_groups=10, ec_point_formats=11, signature_algorithms=13,
           application_layer_protocol_negotiation=16, signed_certificate_timestamp=18, padding=21, encrypt_then_mac=22,
           extended_master_secret=23, token_binding=24, compress_certificate=27, record_size_limit=28,
           delegated_credentials=34, session_ticket=35, supported_versions=43, psk_key_exchange_modes=45,
           signature_algorithms_cert=50, key_share=51, next_protocol_negotiation=13172,
           application_layer_protocol_settings=17513, channel_id=30032, renegotiation_info=65281,
           key_share_reserved=40)


# ---- RFC 5246 6.2.1: struct { ContentType type; ProtocolVersion version; uint16 length; opaque fragment[length]; }
@spec('TlsRecord')
def tls_record(o):
    return cat(u8(o.f['content_type']), version(o.f['protocol_version']), vec(2, o.f['fragment']))


# ---- RFC 5246 6.2.1 / A.1: ProtocolVersion { uint8 major; uint8 minor; }  = the two bytes of the version code
def version(v):
    return u16(v.f['version'])


@spec('TlsProtocolVersion')
def tls_protocol_version(o):
    return version(o)


# ---- RFC 5246 7.2: struct { AlertLevel level; AlertDescription description; }
@spec('TlsAlertMessage')
def tls_alert(o):
    return cat(u8(o.f['level']), u8(o.f['description']))


# ---- RFC 5246 7.1: struct { enum { change_cipher_spec(1) } type; }
@spec('TlsChangeCipherSpecMessage')
def tls_ccs(o):
    return cat(u8(1))


@spec('TlsApplicationDataMessage')
def tls_appdata(o):
    return cat(o.f['data'])


# ---- RFC 5246 7.4: struct { HandshakeType msg_type; uint24 length; body }
def handshake(msg_type, body):
    return cat(u8(msg_type), vec(3, body))


# ---- RFC 5246 7.4.2: opaque ASN.1Cert<1..2^24-1>; struct { ASN.1Cert certificate_list<0..2^24-1>; }
@spec('TlsCertificate')
def tls_cert_entry(o):
    return vec(3, o.f['certificate'])


@spec('TlsCertificates')
def tls_cert_list(o):
    return vec(3, cat(*[spec_of(c) for c in items_of(o)]))


@spec('TlsHandshakeCertificate')
def tls_hs_certificate(o):
    return handshake(11, spec_of(o.f['certificate_chain']))


# ---- RFC 6066 8: struct { CertificateStatusType status_type; opaque OCSPResponse<1..2^24-1>; }   msg_type 22
@spec('TlsHandshakeCertificateStatus')
def tls_hs_certificate_status(o):
    return handshake(22, cat(u8(o.f['status_type']), vec(3, o.f['status'])))


# ---- RFC 5246 7.4.5: struct { } ServerHelloDone;  msg_type 14
@spec('TlsHandshakeServerHelloDone')
def tls_hs_server_hello_done(o):
    return handshake(14, cat())


# ---- RFC 5246 7.4.3: opaque key exchange parameters;  msg_type 12
@spec('TlsHandshakeServerKeyExchange')
def tls_hs_server_key_exchange(o):
    return handshake(12, o.f['param_bytes'])


# ---- vectors of codes: RFC 5246 4.3 (length prefix sized by the ceiling), element widths per registry
def coded_vector(width_len, width_item):
    return lambda o: vec(width_len, flat(codes_of(o), width_item))


SPECS['TlsCipherSuiteVector'] = coded_vector(2, 2)          # CipherSuite cipher_suites<2..2^16-2>
SPECS['TlsCompressionMethodVector'] = coded_vector(1, 1)    # CompressionMethod compression_methods<1..2^8-1>
SPECS['TlsSessionIdVector'] = coded_vector(1, 1)            # opaque SessionID<0..32>
SPECS['TlsECPointFormatVector'] = coded_vector(1, 1)        # RFC 8422 5.1.2: ECPointFormat ec_point_format_list<1..2^8-1>
SPECS['TlsEllipticCurveVector'] = coded_vector(2, 2)        # RFC 8422 5.1.1: NamedCurve named_curve_list<2..2^16-1>
SPECS['TlsSignatureAndHashAlgorithmVector'] = coded_vector(2, 2)   # RFC 5246 7.4.1.4.1 <2..2^16-2>
SPECS['TlsSupportedVersionVector'] = coded_vector(1, 2)     # RFC 8446 4.2.1: ProtocolVersion versions<2..254>
SPECS['TlsPskKeyExchangeModeVector'] = coded_vector(1, 1)   # RFC 8446 4.2.9: PskKeyExchangeMode ke_modes<1..255>
SPECS['TlsCertificateCompressionAlgorithmVector'] = coded_vector(1, 2)   # RFC 8879 3: algorithms<2..2^8-2>
SPECS['TlsTokenBindingParamaterVector'] = coded_vector(1, 1)   # RFC 8472 2: key_parameters_list<1..2^8-1>
SPECS['TlsClientCertificateTypeVector'] = coded_vector(1, 1)   # RFC 5246 7.4.4: certificate_types<1..2^8-1>
SPECS['TlsRenegotiatedConnection'] = coded_vector(1, 1)     # RFC 5746 3.2: opaque renegotiated_connection<0..255>
SPECS['TlsServerName'] = coded_vector(2, 1)                 # RFC 6066 3: opaque HostName<1..2^16-1>
SPECS['TlsKeyExchangeVector'] = coded_vector(2, 1)          # RFC 8446 4.2.8: opaque key_exchange<1..2^16-1>
SPECS['TlsDistinguishedName'] = coded_vector(2, 1)          # RFC 5246 7.4.4: opaque DistinguishedName<1..2^16-1>
SPECS['TlsCertificateStatusRequestExtensions'] = coded_vector(2, 1)      # RFC 6066 8: Extensions<0..2^16-1>
SPECS['TlsCertificateStatusRequestResponderId'] = coded_vector(2, 1)     # RFC 6066 8: opaque ResponderID<1..2^16-1>
SPECS['CtExtensions'] = coded_vector(2, 1)                  # RFC 6962 3.2: opaque CtExtensions<0..2^16-1>
SPECS['CtSignature'] = coded_vector(2, 1)                   # RFC 5246 4.7: opaque signature<0..2^16-1>


# ---- RFC 5246 7.4.1.4: struct { ExtensionType extension_type; opaque extension_data<0..2^16-1>; }
def extension(ext_type, data):
    return cat(u16(ext_type), vec(2, data))


def ext_spec(name, type_key, body):
    SPECS[name] = lambda o, body=body, t=EXT[type_key]: extension(t, body(o))


ext_spec('TlsExtensionECPointFormats', 'ec_point_formats', lambda o: spec_of(o.f['point_formats']))
ext_spec('TlsExtensionEllipticCurves', 'supported_groups', lambda o: spec_of(o.f['elliptic_curves']))
ext_spec('TlsExtensionSignatureAlgorithms', 'signature_algorithms', lambda o: spec_of(o.f['hash_and_signature_algorithms']))
ext_spec('TlsExtensionSignatureAlgorithmsCert', 'signature_algorithms_cert', lambda o: spec_of(o.f['hash_and_signature_algorithms']))
ext_spec('TlsExtensionDelegatedCredentials', 'delegated_credentials', lambda o: spec_of(o.f['hash_and_signature_algorithms']))
ext_spec('TlsExtensionSupportedVersionsClient', 'supported_versions', lambda o: spec_of(o.f['supported_versions']))
ext_spec('TlsExtensionSupportedVersionsServer', 'supported_versions', lambda o: version(o.f['selected_version']))
ext_spec('TlsExtensionPskKeyExchangeModes', 'psk_key_exchange_modes', lambda o: spec_of(o.f['key_exchange_modes']))
ext_spec('TlsExtensionCompressCertificate', 'compress_certificate', lambda o: spec_of(o.f['compression_algorithms']))
ext_spec('TlsExtensionRenegotiationInfo', 'renegotiation_info', lambda o: spec_of(o.f['renegotiated_connection']))
ext_spec('TlsExtensionRecordSizeLimit', 'record_size_limit', lambda o: u16(o.f['record_size_limit']))      # RFC 8449 4
ext_spec('TlsExtensionEncryptThenMAC', 'encrypt_then_mac', lambda o: cat())                                  # RFC 7366 2
ext_spec('TlsExtensionExtendedMasterSecret', 'extended_master_secret', lambda o: cat())                      # RFC 7627 5.1
ext_spec('TlsExtensionSessionTicket', 'session_ticket', lambda o: cat(o.f['session_ticket']))               # RFC 5077 3.2
# extensions whose extension_data is empty: RFC 6066 3 (server_name in a server hello), RFC 6962 3.3.1 (SCT request of a
# client), draft-balfanz-tls-channelid (client offer). The short record header experiment is NOT stated: its type number is not
# in a document the author can cite from memory (a first attempt with 65280 was a false alarm of the specification; the data
# table says 65283)
ext_spec('TlsExtensionServerNameServer', 'server_name', lambda o: cat())
ext_spec('TlsExtensionSignedCertificateTimestampClient', 'signed_certificate_timestamp', lambda o: cat())
ext_spec('TlsExtensionChannelId', 'channel_id', lambda o: cat())
# RFC 8472 2: struct { TB_ProtocolVersion token_binding_version; TokenBindingKeyParameters key_parameters_list<1..2^8-1> }
ext_spec('TlsExtensionTokenBinding', 'token_binding',
         lambda o: cat(u8(o.f['protocol_version'].f['major']), u8(o.f['protocol_version'].f['minor']), spec_of(o.f['parameters'])))
# RFC 8446 4.2.8: KeyShareEntry { NamedGroup group; opaque key_exchange<1..2^16-1>; }
SPECS['TlsKeyShareEntry'] = lambda o: cat(u16(o.f['group']), spec_of(o.f['key_exchange']))
ext_spec('TlsExtensionKeyShareServer', 'key_share', lambda o: spec_of(o.f['key_share_entry']))
ext_spec('TlsExtensionKeyShareClientHelloRetry', 'key_share', lambda o: u16(o.f['selected_group']))


# RFC 8446 4.2.8: KeyShareClientHello { KeyShareEntry client_shares<0..2^16-1>; } -- the vector is present also when it is empty
def key_share_entries(o):
    items = items_of(o)
    if not isinstance(items, (list, tuple)):
        raise NoSpec('symbolic key share list')
    return vec(2, cat(*[spec_of(e) for e in items]))


SPECS['TlsKeyShareEntryVector'] = key_share_entries
ext_spec('TlsExtensionKeyShareClient', 'key_share', lambda o: spec_of(o.f['key_share_entries']))
ext_spec('TlsExtensionKeyShareReservedClient', 'key_share_reserved', lambda o: spec_of(o.f['key_share_entries']))
# RFC 6066 8: struct { CertificateStatusType status_type(ocsp=1); ResponderID responder_id_list<0..2^16-1>; Extensions request_extensions; }
ext_spec('TlsExtensionCertificateStatusRequestClient', 'status_request',
         lambda o: cat(u8(1), vec(2, cat(*[spec_of(r) for r in items_of(o.f['responder_id_list'])])), spec_of(o.f['request_extensions'])))
# RFC 7685 3: padding of zero bytes
ext_spec('TlsExtensionPadding', 'padding',
         lambda o: V.SSeq(num(o.f['length']), lambda i: z3.IntVal(0), 'bytes'))


# ---- RFC 7507 / RFC 5746 3.3: signalling cipher suite values on the wire
FALLBACK_SCSV = 0x5600
EMPTY_RENEGOTIATION_INFO_SCSV = 0x00ff


# ---- RFC 5246 7.4.1.2 / RFC 8446 4.1.2: ClientHello
#   ProtocolVersion client_version; Random random (uint32 gmt_unix_time + opaque random_bytes[28]); SessionID session_id<0..32>;
#   CipherSuite cipher_suites<2..2^16-2>; CompressionMethod compression_methods<1..2^8-1>; [Extension extensions<0..2^16-1>]
# The signalling suites TLS_FALLBACK_SCSV (RFC 7507, 0x5600) and TLS_EMPTY_RENEGOTIATION_INFO_SCSV (RFC 5746 3.3, 0x00ff)
# are ordinary entries of cipher_suites on the wire; the RFCs leave their position free, this function puts them last in
# the order fallback, renegotiation.
def random_struct(r):
    t = r.f['time']
    secs = t.secs if hasattr(t, 'secs') else __import__('calendar').timegm(t.utctimetuple())
    return cat(u32(secs), flat(codes_of(r.f['random']), 1))


@spec('TlsHandshakeHelloRandom')
def tls_hello_random(o):
    return random_struct(o)


def client_hello_body(o, suites_codes, fallback, renegotiation):
    from pyvc.values import SSeq
    extra = []
    if fallback is not False:
        extra.append((fallback, FALLBACK_SCSV))
    if renegotiation is not False:
        extra.append((renegotiation, EMPTY_RENEGOTIATION_INFO_SCSV))
    body = flat(suites_codes, 2)
    for present, code in extra:
        piece = u16(code)
        if present is True:
            body = cat(body, piece)
        else:
            body = cat(body, V.SSeq(z3.If(present, 2, 0), piece._at, 'bytes'))
    exts = items_of(o.f['extensions'])
    ext_bytes = cat(*[spec_of(e) for e in exts]) if len(exts) else None
    parts = [version(o.f['protocol_version']), random_struct(o.f['random']), spec_of(o.f['session_id']), vec(2, body),
             spec_of(o.f['compression_methods'])]
    if ext_bytes is not None:
        parts.append(vec(2, ext_bytes))
    return cat(*parts)


@spec('TlsHandshakeClientHello')
def tls_client_hello(o):
    def flag(v):
        if isinstance(v, bool):
            return v
        return v.e
    return handshake(1, client_hello_body(o, codes_of(o.f['cipher_suites']), flag(o.f['fallback_scsv']),
                                          flag(o.f['empty_renegotiation_info_scsv'])))


# ---- SSL 2.0 (Hickman 1995) ERROR message body: ERROR-CODE as two octets, MSB first (the message type octet belongs to the
#      record); error codes from the specification-owned table
@spec('SslErrorMessage')
def ssl_error(o):
    from spec.tables import TABLES
    t = o.f['error_type']
    if isinstance(t, V.SEnum):
        missing = [m.name for m in t.cls if m.name not in TABLES['SslErrorType']]
        if missing:
            raise NoSpec('SSL 2.0 error codes %s' % missing)
        return u16(V.enum_table(t.cls, t.idx, lambda m: TABLES['SslErrorType'][m.name]))
    if getattr(t, 'name', None) in TABLES['SslErrorType']:
        return u16(TABLES['SslErrorType'][t.name])
    raise NoSpec('SSL 2.0 error code')
