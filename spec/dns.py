# spec.dns -- RDATA wire formats of the DNS records the library handles (clause K6, property C08), transcribed from
# RFC 1035 (names, MX, TXT) and RFC 4034 (DNSKEY, DS, RRSIG).
import z3

from pyvc import values as V, ops
from spec.wire import spec, cat, u8, u16, u32, num, seq, flags_value, SPECS, NoSpec, spec_of


# ---- RFC 4034 5.1: DS RDATA = key tag (2), algorithm (1), digest type (1), digest
@spec('DnsRecordDs')
def ds(o):
    return cat(u16(o.f['key_tag']), u8(o.f['algorithm']), u8(o.f['digest_type']), o.f['digest'])


# ---- RFC 1035 3.3.14 / 3.3: TXT RDATA = one or more <character-string>, each a length octet followed by at most 255
#      octets; the text is laid out in consecutive character-strings of 255 octets, the last one shorter (one empty
#      character-string for the empty text)
@spec('DnsRecordTxt')
def txt(o):
    from pyvc import engine as E
    P = E.cur()
    s = seq(o.f['value'])
    parts = []
    start = 0
    for _ in range(4):
        if P.branch(s.n - start <= 255):
            rest = V.slice_seq(s, start, None)
            parts += [u8(rest.n), rest]
            return cat(*parts)
        parts += [u8(255), V.slice_seq(s, start, start + 255)]
        start += 255
        if P.branch(s.n == start):
            return cat(*parts)
    raise NoSpec('text longer than 1020 octets')


def toascii(label):
    """the octets of a label: its IDNA ToASCII form (RFC 3490), the same uninterpreted function the codec model uses"""
    from pyvc import models
    if isinstance(label, V.SStr):
        r = models.idna_toascii(label, lookup_only=True)
        if r is None:
            raise NoSpec('label never encoded by the code')
        return r
    if isinstance(label, str):
        return V.conc_seq(label.encode('idna'), 'bytes')
    raise NoSpec('label of type %s' % type(label).__name__)


# ---- RFC 1035 3.1: a domain name is a sequence of labels, each a length octet followed by that number of octets,
#      terminated by the zero length octet of the root label
@spec('DnsNameUncompressed')
def name(o):
    labels = o.f['labels']
    if not isinstance(labels, (list, tuple)):
        raise NoSpec('symbolic label list')
    parts = []
    for l in labels:
        s = toascii(l)
        parts += [u8(s.n), s]
    return cat(*(parts + [u8(0)]))


# ---- RFC 1035 3.3.9: MX RDATA = PREFERENCE (16 bit integer), EXCHANGE (domain name)
@spec('DnsRecordMx')
def mx(o):
    return cat(u16(o.f['priority']), spec_of(o.f['exchange']))


def unix_seconds(t):
    """the instant as whole seconds since 1 January 1970 00:00:00 UTC (RFC 4034 3.1.5)"""
    if isinstance(t, V.SDateTime):
        return t.secs
    raise NoSpec('timestamp of type %s' % type(t).__name__)


# ---- RFC 4034 3.1: RRSIG RDATA = type covered (2), algorithm (1), labels (1), original TTL (4), signature expiration (4),
#      signature inception (4) (both seconds since the epoch), key tag (2), signer's name, signature
@spec('DnsRecordRrsig')
def rrsig(o):
    return cat(u16(o.f['type_covered']), u8(o.f['algorithm']), u8(o.f['labels']), u32(o.f['original_ttl']),
               u32(unix_seconds(o.f['signature_expiration'])), u32(unix_seconds(o.f['signature_inception'])),
               u16(o.f['key_tag']), spec_of(o.f['signers_name']), o.f['signature'])


# ---- RFC 4034 2.1: DNSKEY RDATA = flags (2), protocol (1, always 3), algorithm (1), public key (format per algorithm)
def dnskey(o, key_bytes):
    from cryptoparser.dnsrec.record import DnsSecProtocol
    return cat(u16(flags_value(o.f['flags'])), u8(3), u8(o.f['algorithm']), key_bytes)
