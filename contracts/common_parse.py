# Sidecar contracts for cryptoparser/common/parse.py (the repository file is not annotated).
#
# A contract is an executable *specification function* over symbolic values: it states, for every outcome class
# (return / each exception), the result and the final state as a mathematical function of the arguments. It is
#   * verified against the real body (pyvc explores body and specification on equal states and proves equal
#     outcomes, see checks/c11.py: "contract ... refines body"), and
#   * applied at every call site instead of the body (modular verification).
# Loop contracts (inductive invariants in functional form) are keyed by function and loop ordinal.
import enum
import struct

import z3

from cryptodatahub.common.exception import InvalidValue
from cryptoparser.common.exception import NotEnoughData, TooMuchData, InvalidType
from cryptoparser.common import parse as RP
from cryptoparser.common.parse import ParserBinary, ComposerBinary, ParserBase, ByteOrder

from pyvc import values as V, engine as E, interp as I, ops, loops, spec as S, frame as F, models
from pyvc.values import SInt, SBool, SSeq, SEnum, SObj, SFlags
from pyvc.ops import as_int, wrap_int, raise_

SIZES = (1, 2, 3, 4, 8)


def concrete_enum(v):
    """case split of a symbolic enum member into its concrete members"""
    if not isinstance(v, SEnum):
        return v
    P = E.cur()
    ms = list(v.cls)
    for k, m in enumerate(ms[:-1]):
        if P.branch(v.idx == k):
            return m
    return ms[-1]


def order_char(obj):
    bo = concrete_enum(I.getattr_(obj, 'byte_order'))
    return bo.value


def invalid_value(value, cls, name=None):
    return I.construct(InvalidValue, [value, cls] + ([name] if name is not None else []), {})


def conc_int(x):
    """python int if x is concrete else None"""
    if isinstance(x, bool):
        return int(x)
    if isinstance(x, int):
        return int(x)
    if isinstance(x, SInt):
        e = V.simp(x.e)
        if z3.is_int_value(e):
            return e.as_long()
    return None


# ---------------------------------------------------------------------------------------------------------------
# ComposerBinary._compose_numeric_array(self, values, item_size)
#   returns  =>  every value v satisfies 0 <= v < 256**item_size  and  _composed' = _composed ++ flat(enc(v))
#   otherwise raises InvalidValue (first offending value) and _composed is unchanged.      [C11: never truncates]
def spec_compose_numeric_array(self, values, item_size):
    P = E.cur()
    view = loops.iteration_view(values)
    size = conc_int(item_size)
    if size is None:
        raise E.Unsupported('_compose_numeric_array with symbolic item_size')
    if view[0] == 'concrete':
        items = view[1]
        if not items:
            return None
        if size not in SIZES:
            raise_(KeyError, size)
        oc = order_char(self)
        terms = []
        for v in items:
            if not ops.is_intlike(v):
                raise E.PyRaise(invalid_value(v, int))
            ve = as_int(v)
            if not P.branch(S.in_range(ve, size)):
                raise E.PyRaise(invalid_value(v, int))
            terms.append(ve)
        flat = V.conc_seq([], 'bytearray')
        for ve in terms:
            flat = V.concat(flat, S.enc(ve, size, oc, 'bytearray'), 'bytearray')
    else:
        _, n, elem = view
        if isinstance(values, SSeq) and isinstance(values.elem, tuple) and values.elem[0] == 'enum' \
                and issubclass(values.elem[1], int):
            # IntEnum members are packed as their integer values
            ecls = values.elem[1]
            values = SSeq(values.n, lambda j, at=values._at: V.enum_table(ecls, at(j), lambda m: int(m.value)), 'list')
        if not isinstance(values, SSeq) or values.elem != 'int':
            raise E.Unsupported('_compose_numeric_array over %r' % (values,))
        if P.branch(n <= 0):
            return None
        if size not in SIZES:
            raise_(KeyError, size)
        oc = order_char(self)
        j = z3.Int('j!q')
        if P.choose('some value out of range'):
            w = V.fresh_int('bad')
            P.assume(z3.And(w >= 0, w < n, z3.Not(S.in_range(values.at(w), size)),
                            z3.ForAll([j], z3.Implies(z3.And(j >= 0, j < w), S.in_range(values.at(j), size)))))
            raise E.PyRaise(invalid_value(wrap_int(values.at(w)), int))
        P.assume(z3.ForAll([j], z3.Implies(z3.And(j >= 0, j < n), S.in_range(values.at(j), size))))
        flat = S.flat_enc(values, size, oc)
    old = ops.as_seq(self.f['_composed'])
    self.f['_composed'] = V.concat(old, flat, old.kind)
    return None


def loop_compose_numeric_array():
    def state(frame, ctx, k):
        size = conc_int(frame.lookup('item_size'))
        values = frame.lookup('values')
        oc = order_char(frame.lookup('self'))
        prefix = SSeq(k, values._at, 'list')
        return {'composed_bytes': S.flat_enc(prefix, size, oc, 'bytearray')}

    def qfacts(frame, ctx):
        size = conc_int(frame.lookup('item_size'))
        values = frame.lookup('values')
        return [lambda j: S.in_range(values.at(j), size)]
    return loops.FunctionalLoop(state, qfacts)


# ---------------------------------------------------------------------------------------------------------------
# ParserBinary._parse_numeric_array(self, name, item_num, item_size, item_numeric_class)
#   pl + item_num*item_size <= len  =>  returns ([conv(dec(p[pl + j*size : ...])) for j < item_num], item_num*size),
#                                       parser state untouched
#   else raises NotEnoughData(item_num*size - unparsed);  conv raising ValueError  =>  InvalidValue
def apply_conv(conv, raw, name):
    """conv(raw) with ValueError -> InvalidValue, as the body does"""
    if conv is int:
        return raw
    try:
        return I.call(conv, [raw], {})
    except E.PyRaise as pr:
        if issubclass(pr.exc.cls, ValueError):
            raise E.PyRaise(invalid_value(raw, conv, name))
        raise


def spec_parse_numeric_array(self, name, item_num, item_size, item_numeric_class):
    P = E.cur()
    size = conc_int(item_size)
    if size is None:
        raise E.Unsupported('_parse_numeric_array with symbolic item_size')
    p = ops.as_seq(self.f['_parsable'])
    pl = as_int(self.f['_parsed_length'])
    num = as_int(item_num)
    need = V.simp(num * size)
    if P.branch(pl + need > p.n):
        raise E.PyRaise(I.construct(NotEnoughData, [], dict(bytes_needed=wrap_int(need - (p.n - pl)))))
    if size not in SIZES:
        raise_(NotImplementedError)
    oc = order_char(self)
    cnum = loops.concretize_count(V.simp(z3.If(num < 0, z3.IntVal(0), num)))
    if cnum is not None and cnum <= 64:
        out = []
        for j in range(cnum):
            raw = wrap_int(S.dec(p.at, pl + j * size, size, oc))
            out.append(apply_conv(item_numeric_class, raw, name))
        return out, wrap_int(need)
    # symbolic number of items
    n = V.simp(z3.If(num < 0, z3.IntVal(0), num))
    raw_at = lambda j: S.dec(p.at, pl + V.iv(j) * size, size, oc)
    conv = item_numeric_class
    if conv is int:
        return SSeq(n, raw_at, 'list'), wrap_int(need)
    if isinstance(conv, type) and issubclass(conv, enum.IntEnum):
        ms = list(conv)
        valid = lambda j: z3.Or(*[raw_at(j) == int(m.value) for m in ms])
        jq = z3.Int('j!q')
        if P.choose('some item not a member'):
            w = V.fresh_int('bad')
            P.assume(z3.And(w >= 0, w < n, z3.Not(valid(w)),
                            z3.ForAll([jq], z3.Implies(z3.And(jq >= 0, jq < w), valid(jq)))))
            raise E.PyRaise(invalid_value(wrap_int(raw_at(w)), conv, name))
        P.assume(z3.ForAll([jq], z3.Implies(z3.And(jq >= 0, jq < n), valid(jq))))

        def idx_at(j):
            r = raw_at(j)
            e = z3.IntVal(len(ms) - 1)
            for k in range(len(ms) - 2, -1, -1):
                e = z3.If(r == int(ms[k].value), z3.IntVal(k), e)
            return e
        return SSeq(n, idx_at, 'list', ('enum', conv)), wrap_int(need)
    raise E.Unsupported('_parse_numeric_array: symbolic item count with converter %r' % (conv,))


def loop_parse_numeric_array():
    def raw_at(frame):
        me = frame.lookup('self')
        size = conc_int(frame.lookup('item_size'))
        p = ops.as_seq(me.f['_parsable'])
        pl = as_int(me.f['_parsed_length'])
        oc = order_char(me)
        return lambda j: S.dec(p.at, pl + V.iv(j) * size, size, oc)

    def state(frame, ctx, k):
        conv = frame.lookup('item_numeric_class')
        r = raw_at(frame)
        if conv is int:
            return {'value': SSeq(k, r, 'list')}
        ms = list(conv)

        def idx_at(j):
            x = r(j)
            e = z3.IntVal(len(ms) - 1)
            for i in range(len(ms) - 2, -1, -1):
                e = z3.If(x == int(ms[i].value), z3.IntVal(i), e)
            return e
        return {'value': SSeq(k, idx_at, 'list', ('enum', conv))}

    def qfacts(frame, ctx):
        conv = frame.lookup('item_numeric_class')
        if conv is int:
            return []
        r = raw_at(frame)
        ms = list(conv)
        return [lambda j: z3.Or(*[r(j) == int(m.value) for m in ms])]
    return loops.FunctionalLoop(state, qfacts)


def register():
    I.CONTRACTS[ComposerBinary._compose_numeric_array] = spec_compose_numeric_array
    I.CONTRACTS[ParserBinary._parse_numeric_array] = spec_parse_numeric_array
    F.LOOPS[('ComposerBinary._compose_numeric_array', 0)] = loop_compose_numeric_array()
    F.LOOPS[('ParserBinary._parse_numeric_array', 0)] = loop_parse_numeric_array()
    register_arrays()
    register_mpint()
    register_compose_arrays()


# ---------------------------------------------------------------------------------------------------------------
# ParserBinary._parse_parsable_derived_array(self, items_size, item_classes, fallback_class=None)
# Contract for *coded* item kinds (every item is one fixed-width code: enum factory, optionally wrapped, with an
# optional TlsInvalidType fallback of the same width). Other item kinds are outside the contract (Decline): the
# body is interpreted, its while loop unrolled up to the bound configured for the check (a bounded stand-in).
def coded_kind(item_classes, fallback_class):
    from cryptoparser.common.base import NByteEnumParsable
    from cryptoparser.tls.grease import TlsInvalidTypeBase
    from cryptoparser.tls.version import TlsProtocolVersion
    from contracts import common_base as CB
    if len(item_classes) != 1:
        return None
    ic = item_classes[0]
    wrap = None
    if ic is TlsProtocolVersion:
        from cryptoparser.tls.version import TlsVersionFactory
        ic, wrap = TlsVersionFactory, TlsProtocolVersion
    if not (isinstance(ic, type) and issubclass(ic, NByteEnumParsable)):
        return None
    w = ic.get_byte_num()
    if fallback_class is not None:
        if not (isinstance(fallback_class, type) and issubclass(fallback_class, TlsInvalidTypeBase)
                and fallback_class.get_byte_num() == w):
            return None
    return CB.coded_spec(ic.get_enum_class(), fallback_class, w, wrap)


def spec_parse_parsable_derived_array(self, items_size, item_classes, fallback_class=None):
    P = E.cur()
    sp = coded_kind(list(item_classes), fallback_class)
    if sp is None:
        raise I.Decline()
    p = ops.as_seq(self.f['_parsable'])
    pl = as_int(self.f['_parsed_length'])
    s = as_int(items_size)
    if not P.entails(s >= 0):
        raise I.Decline()
    if P.branch(s > p.n - pl):
        raise E.PyRaise(I.construct(NotEnoughData, [], dict(bytes_needed=wrap_int(s - (p.n - pl)))))
    w = sp.width
    n = V.simp(s / w)
    r = V.simp(s % w)
    code_at = lambda j: S.dec(p.at, pl + V.iv(j) * w, w, '!')
    jq = z3.Int('j!q')
    if sp.fallback_cls is None:
        if P.choose('some code unassigned'):
            bad = V.fresh_int('bad')
            P.assume(z3.And(bad >= 0, bad < n, z3.Not(sp.known(code_at(bad))),
                            z3.ForAll([jq], z3.Implies(z3.And(jq >= 0, jq < bad), sp.known(code_at(jq))))))
            rest = V.slice_seq(p, pl + bad * w, pl + s)
            raise E.PyRaise(ops.mk_exc(ValueError, rest))
        P.assume(z3.ForAll([jq], z3.Implies(z3.And(jq >= 0, jq < n), sp.known(code_at(jq)))))
    if P.branch(r > 0):
        raise E.PyRaise(I.construct(NotEnoughData, [], dict(bytes_needed=wrap_int(w - r))))
    if sp.fallback_cls is None and sp.wrap_known is None:
        return SSeq(n, lambda j: sp.first_index(code_at(j)), 'list', ('enum', sp.enum_cls)), wrap_int(s)
    return SSeq(n, code_at, 'list', ('coded', sp)), wrap_int(s)


def derived_array_roles(frame, stmt=None):
    """the locals of _parse_parsable_derived_array by ROLE, read off the code itself so that renaming a temporary does not
    break the contract: parameters by position, the rest-of-input variable as the name tested by `while <name>:`, the result
    list as the name the loop body appends to"""
    import ast
    import inspect
    params = list(inspect.signature(frame.fn).parameters)
    roles = dict(self=params[0], items_size=params[1], item_classes=params[2], fallback_class=params[3])
    loop = stmt
    if loop is None:
        loop = next((n for n in ast.walk(frame.node) if isinstance(n, ast.While)), None)
    if loop is not None and isinstance(loop.test, ast.Name):
        roles['rest'] = loop.test.id
        for n in ast.walk(loop):
            if isinstance(n, ast.Call) and isinstance(n.func, ast.Attribute) and n.func.attr == 'append' and isinstance(n.func.value, ast.Name):
                roles['items'] = n.func.value.id
    roles.setdefault('rest', 'unparsed_bytes')
    roles.setdefault('items', 'items')
    return roles


def loop_parse_parsable_derived_array():
    def ctxvals(frame):
        r = derived_array_roles(frame)
        me = frame.lookup(r['self'])
        p = ops.as_seq(me.f['_parsable'])
        pl = as_int(me.f['_parsed_length'])
        s = as_int(frame.lookup(r['items_size']))
        sp = coded_kind(list(frame.lookup(r['item_classes'])), frame.lookup(r['fallback_class']))
        if sp is None:
            raise E.Unsupported('_parse_parsable_derived_array over variable-size items needs a bound')
        return p, pl, s, sp

    def state(frame, ctx, k):
        p, pl, s, sp = ctxvals(frame)
        w = sp.width
        code_at = lambda j: S.dec(p.at, pl + V.iv(j) * w, w, '!')
        if sp.fallback_cls is None and sp.wrap_known is None:
            items = SSeq(k, lambda j: sp.first_index(code_at(j)), 'list', ('enum', sp.enum_cls))
        else:
            items = SSeq(k, code_at, 'list', ('coded', sp))
        r = derived_array_roles(frame, getattr(ctx, 'stmt', None))
        return {r['rest']: V.slice_seq(p, pl + V.iv(k) * w, pl + s, 'bytes'), r['items']: items}

    def qfacts(frame, ctx):
        p, pl, s, sp = ctxvals(frame)
        if sp.fallback_cls is not None:
            return []
        w = sp.width
        return [lambda j: sp.known(S.dec(p.at, pl + V.iv(j) * w, w, '!'))]

    def facts(frame, ctx, k):
        p, pl, s, sp = ctxvals(frame)
        return [V.iv(k) * sp.width <= s]
    lc = loops.FunctionalLoop(state, qfacts, facts)
    lc.applies = lambda frame: (lambda r: coded_kind(list(frame.lookup(r['item_classes'])), frame.lookup(r['fallback_class'])) is not None)(derived_array_roles(frame))
    return lc


def register_arrays():
    I.CONTRACTS[ParserBinary._parse_parsable_derived_array] = spec_parse_parsable_derived_array
    F.LOOPS[('ParserBinary._parse_parsable_derived_array', 0)] = loop_parse_parsable_derived_array()


# ---------------------------------------------------------------------------------------------------------------
# ParserBinary._parse_mpint(self, mpint_length, mpint_offset, negative)          (helper contract, value left open)
#   requires mpint_length >= 0
#   available = bytes after position _parsed_length + mpint_offset
#   mpint_length > available  ->  NotEnoughData(mpint_length - available), parser state untouched
#   else                      ->  returns an integer, parser state untouched
from pyvc import vc as _vc            # noqa: E402


def spec_parse_mpint(self, mpint_length, mpint_offset, negative):
    P = E.cur()
    L = as_int(mpint_length)
    off = as_int(mpint_offset)
    if not P.entails(z3.And(L >= 0, off >= 0)):
        raise I.Decline()
    p = ops.as_seq(self.f['_parsable'])
    pl = as_int(self.f['_parsed_length'])
    avail = V.simp(z3.If(pl + off > p.n, z3.IntVal(0), p.n - pl - off))
    if P.branch(L > avail):
        raise E.PyRaise(I.construct(NotEnoughData, [], dict(bytes_needed=wrap_int(L - avail))))
    ops.truth(negative)          # the body branches on it; no exception either way
    return SInt(V.fresh_int('mpint'))


def spec_parse_mpint_for_refinement(self, mpint_length, mpint_offset, negative):
    r = spec_parse_mpint(self, mpint_length, mpint_offset, negative)
    return _vc.AnyInt()


def register_mpint():
    I.CONTRACTS[ParserBinary._parse_mpint] = spec_parse_mpint
    F.LOOPS[('ParserBinary._parse_mpint', 0)] = loops.HavocLoop(['value'])


# ---------------------------------------------------------------------------------------------------------------
# ComposerBinary.compose_parsable_array(self, values, separator=bytearray())  for a sequence of *coded* items:
#   _composed' = _composed ++ flat(enc_w(code(item)))            (empty separator only; otherwise the body is used)
def spec_compose_parsable_array(self, values, separator=None):
    if not (isinstance(values, SSeq) and isinstance(values.elem, tuple) and values.elem[0] in ('coded', 'enum')):
        raise I.Decline()
    if separator is not None and not (isinstance(separator, (bytes, bytearray)) and len(separator) == 0):
        raise I.Decline()
    P = E.cur()

    def members_cannot_compose(ecls, witness_known, none_known):
        """the body calls item.compose() on every item: members of an enumeration without a compose method (the
        cryptodatahub tables carry none) make it raise AttributeError as soon as one of them is in the sequence"""
        if hasattr(ecls, 'compose'):
            return
        if P.choose('a member without compose() is in the sequence'):
            P.assume(witness_known)
            ops.raise_(AttributeError, "'%s' object has no attribute 'compose'" % ecls.__name__)
        P.assume(none_known)
    if values.elem[0] == 'coded':
        sp = values.elem[1]
        codes, w = values, sp.width
        wit = V.fresh_int('member_at')
        j = z3.Int('j!q')
        members_cannot_compose(sp.wrap_known if sp.wrap_known is not None else sp.enum_cls,      # known items may be wrapper objects
                               z3.And(wit >= 0, wit < values.n, sp.known(values.at(wit))),
                               z3.ForAll([j], z3.Implies(z3.And(j >= 0, j < values.n), z3.Not(sp.known(values.at(j))))))
    else:
        ecls = values.elem[1]
        members_cannot_compose(ecls, values.n > 0, values.n == 0)
        sizes = {m.value.get_code_size() for m in ecls} if all(hasattr(m.value, 'get_code_size') for m in ecls) else set()
        if len(sizes) != 1:
            raise I.Decline()
        w = sizes.pop()
        codes = SSeq(values.n, lambda j, at=values._at: V.enum_table(ecls, at(j), lambda m: m.value.code), 'list')
    old = ops.as_seq(self.f['_composed'])
    self.f['_composed'] = V.concat(old, S.flat_enc(codes, w, '!'), old.kind)
    return None


# VectorEnumCodeNumeric.compose, loop 0:  for item in self: (fallback item -> compose_parsable, member -> coded numeric)
#   body_composer._composed == flat(enc_w(code(self[j])) for j < k)
def loop_vector_enum_code_numeric_compose():
    def state(frame, ctx, k):
        me = frame.lookup('self')
        items = me.f['_items']
        if not (isinstance(items, SSeq) and isinstance(items.elem, tuple) and items.elem[0] == 'coded'):
            raise E.Unsupported('VectorEnumCodeNumeric.compose over a non-coded symbolic item sequence')
        sp = items.elem[1]
        return {'body_composer._composed': S.flat_enc(SSeq(k, items._at, 'list'), sp.width, '!', 'bytes')}
    return loops.FunctionalLoop(state)


def register_compose_arrays():
    from cryptoparser.common.base import VectorEnumCodeNumeric
    I.CONTRACTS[ComposerBinary.compose_parsable_array] = spec_compose_parsable_array
    F.LOOPS[('VectorEnumCodeNumeric.compose', 0)] = loop_vector_enum_code_numeric_compose()
