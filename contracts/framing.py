# declared frame lengths of the stream framing units, read from the header as the protocol documents define them
import z3


def be(buf, off, size):
    e = z3.IntVal(0)
    for k in range(size):
        e = e * 256 + buf.at(off + k)
    return e


def le(buf, off, size):
    e = z3.IntVal(0)
    for k in range(size - 1, -1, -1):
        e = e * 256 + buf.at(off + k)
    return e


# declared frame length, read from the header as the protocol documents define it (independent of the code)
DECLARED = {
    'TlsRecord': lambda b: 5 + be(b, 3, 2),                                  # RFC 5246 6.2.1: length after 5 byte header
    'SslRecord': lambda b: z3.If(b.at(0) >= 128, 2 + (b.at(0) - 128) * 256 + b.at(1),
                                 3 + (b.at(0) % 64) * 256 + b.at(1)),       # SSL 2.0: 2 or 3 byte header
    'TPKT': lambda b: be(b, 2, 2),                                           # RFC 1006: length includes the header
    'MySQLRecord': lambda b: 4 + le(b, 0, 3),                                # 3 byte LE payload length + sequence id
    'OpenVpnPacketWrapperTcp': lambda b: 2 + be(b, 0, 2),
    'SshRecordInit': lambda b: 4 + be(b, 0, 4),                              # RFC 4253 6: packet_length excludes itself
    'SshRecordKexDH': lambda b: 4 + be(b, 0, 4),
    'SshRecordKexDHGroup': lambda b: 4 + be(b, 0, 4),
    'SslRequest': lambda b: be(b, 0, 4),                                     # PostgreSQL: length includes itself
    'Sync': lambda b: z3.IntVal(1),                                          # PostgreSQL: the single byte 'S' answer
}
for _n in ('TlsHandshakeClientHello', 'TlsHandshakeServerHello', 'TlsHandshakeCertificate', 'TlsHandshakeCertificateRequest',
           'TlsHandshakeCertificateStatus', 'TlsHandshakeServerHelloDone', 'TlsHandshakeServerKeyExchange',
           'TlsHandshakeHelloRetryRequest', 'TlsHandshakeMessageVariant'):
    DECLARED[_n] = lambda b: 4 + be(b, 1, 3)                                 # RFC 5246 7.4: type + uint24 length


