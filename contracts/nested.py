# Class contracts for *nested* parsables (DESIGN.md 3.3: "nested parsable fields are used through their K-clauses,
# never re-explored").
#
# When the class C under exploration calls X._parse for another concrete parsable class X (directly or through
# parse_immutable / parse_exact_size / parse_parsable / variant dispatch / item loops), X is not re-explored: the
# call is replaced by X's own clauses K1 and K2, which X's own unit proves for arbitrary input:
#       X._parse(b)  raises one of NotEnoughData / TooMuchData / InvalidValue / InvalidType
#                 or returns (o, n) with o an instance of X's result type and 0 <= n <= len(b)
#                    (n >= 1 when b is non-empty and X is used as a vector item: clause K2i of X's unit)
# This is assume-guarantee over the call graph of _parse functions; the recursion is well-founded on the length of
# the buffer for item loops and on the nesting depth otherwise (checked by C19's call-graph obligation).
# Small leaf classes whose *contents* the enclosing parser inspects (coded enums, numeric vectors, versions) stay
# precise: they are interpreted from source or applied through their exact contracts.
import inspect

import z3

from cryptodatahub.common.exception import InvalidValue
from cryptoparser.common.exception import InvalidType, NotEnoughData, TooMuchData
from cryptoparser.common.parse import ParsableBaseNoABC
from cryptoparser.common import base as RB

from pyvc import values as V, engine as E, interp as I, ops
from pyvc.values import SObj, SSeq

ABSTRACT_DISABLED = False
STATS = dict(applied=0)


def is_precise(cls):
    from cryptoparser.tls.grease import TlsInvalidTypeBase
    from cryptoparser.tls.version import TlsProtocolVersion
    from contracts.common_base import fixed_item_size
    if issubclass(cls, (RB.NByteEnumParsable, TlsInvalidTypeBase, RB.ProtocolVersionMajorMinorBase,
                        RB.StringEnumParsableBase, RB.NumericRangeParsableBase)):
        return True
    if cls is TlsProtocolVersion or cls.__name__ in ('TlsHandshakeHelloRandom', 'TlsHandshakeHelloRandomBytes'):
        return True
    if issubclass(cls, RB.OpaqueEnumParsable):
        return False
    if issubclass(cls, RB.ArrayBase):
        try:
            param = cls.get_param()
        except Exception:
            return False
        if fixed_item_size(param) is not None:
            return True
        return False
    return False


def result_type(cls):
    """static type of the object X._parse returns"""
    if issubclass(cls, RB.VariantParsableBase):
        types = []
        for t in cls._get_variant_types():
            if isinstance(t, type) and issubclass(t, RB.NByteEnumParsable):
                t = t.get_enum_class()
            types.append(t)
        if not types:
            return object
        common = [k for k in type.mro(types[0]) if all(issubclass(t, k) for t in types)]
        return common[0] if common else object
    return cls


def abstract_instance(cls, tag='nested'):
    if issubclass(cls, RB.OpaqueEnumParsable):
        # the parser returns a member of its enum class: some member (which one is not fixed by K1/K2)
        ecls = cls.get_enum_class()
        idx = V.fresh_int('member')
        E.cur().assume(z3.And(idx >= 0, idx < len(list(ecls))))
        return V.SEnum(ecls, idx)
    rt = result_type(cls)
    o = SObj(rt)
    o.abstract = True
    o.abstract_of = cls
    o.abstract_id = V.fresh_int('obj')
    if isinstance(rt, type) and issubclass(rt, RB.ArrayBase):
        # a vector: its items are not known, its declared invariant is (representation invariant of ArrayBase)
        try:
            o.f['param'] = rt.get_param()
        except Exception:
            pass
    return o


def spec_nested_parse(cls, parsable):
    P = E.cur()
    top = getattr(P, 'top_class', None)
    if ABSTRACT_DISABLED or top is None or cls is top or is_precise(cls) or inspect.isabstract(cls):
        raise I.Decline()
    if not isinstance(parsable, (SSeq, bytes, bytearray)):
        raise I.Decline()
    STATS['applied'] += 1
    P.nested = getattr(P, 'nested', set())
    P.nested.add(cls)
    buf = ops.as_seq(parsable)
    if K3_CLAUSE:
        # clauses K3 + K8 of the nested class (proved by its own units): a buffer that starts with the bytes an object of
        # this class composed to parses to that object and consumes exactly those bytes
        for c, obj, seq in getattr(P, 'abs_composed', []):
            if c is cls and P.entails(buf.n >= seq.n):
                j = V.fresh_int('kj')
                if P.entails(z3.Implies(z3.And(j >= 0, j < seq.n), buf.at(j) == seq.at(j))):
                    return obj, ops.wrap_int(seq.n)
    # determinism: the same class applied to a provably equal byte string behaves identically (used by the 2-run
    # obligations K8: the second run re-parses the same nested slices)
    memo = getattr(P, 'nested_memo', None)
    if memo is not None:
        for mcls, mbuf, mout in memo:
            if mcls is cls and P.entails(mbuf.n == buf.n):
                j = V.fresh_int('mj')
                if P.entails(z3.Implies(z3.And(j >= 0, j < buf.n), mbuf.at(j) == buf.at(j))):
                    kind, val = mout
                    if kind == 'raise':
                        raise E.PyRaise(val)
                    return val
    try:
        res = _fresh_outcome(P, cls, buf)
    except E.PyRaise as pr:
        if memo is not None:
            memo.append((cls, buf.copy(), ('raise', pr.exc)))
        raise
    if memo is not None:
        memo.append((cls, buf.copy(), ('ret', res)))
    return res


def _fresh_outcome(P, cls, buf):
    if P.choose('%s raises' % cls.__name__):
        if P.choose('NotEnoughData'):
            k = V.fresh_int('missing')
            P.assume(k >= 1)
            raise E.PyRaise(I.construct(NotEnoughData, [], dict(bytes_needed=ops.wrap_int(k))))
        if P.choose('InvalidValue'):
            raise E.PyRaise(I.construct(InvalidValue, [None, cls], {}))
        if P.choose('InvalidType'):
            raise E.PyRaise(ops.mk_exc(InvalidType))
        k = V.fresh_int('rest')
        raise E.PyRaise(I.construct(TooMuchData, [], dict(bytes_needed=ops.wrap_int(k))))
    n = V.fresh_int('consumed')
    P.last_consumed = n
    P.assume(z3.And(n >= 0, n <= buf.n))
    if cls in ITEM_CLASSES:
        P.assume(z3.Implies(buf.n > 0, n >= 1))        # clause K2i of cls (proved by its own unit)
    if cls.__name__ in FRAMING_NAMES:
        P.assume(n >= 1)                               # clause K2 of a framing unit
        from contracts.framing import DECLARED
        if cls.__name__ in DECLARED:
            P.assume(n == DECLARED[cls.__name__](buf))  # clause K8 of a framing unit: n is what its header declares
    o = abstract_instance(cls)
    if isinstance(o, SObj):
        o.abstract_n = n                               # how many bytes it was parsed from (used by clause K5)
    return o, ops.wrap_int(n)


FRAMING_NAMES = set()
ITEM_CLASSES = set()      # classes used as items of a parsable vector (clause K2i applies to them)


K5_LENGTHS = False
K3_CLAUSE = False       # set by checks/kexinit: parsing the bytes an abstract object composed to gives that object back      # set by checks/c05: a nested object parsed from n bytes composes to n bytes (listed assumption)


def spec_abstract_compose(self):
    """compose() of an abstract (already parsed) nested object: some byte string (K5 of its class: compose succeeds)"""
    if not (isinstance(self, SObj) and getattr(self, 'abstract', False)):
        raise I.Decline()
    P = E.cur()
    key = '_abs_compose'
    if key not in self.f:
        seq, facts = V.base_seq('composed_%s' % self.cls.__name__, 'bytearray')
        for f in facts:
            P.assume(f)
        if K5_LENGTHS and getattr(self, 'abstract_n', None) is not None:
            P.assume(seq.n == self.abstract_n)         # assumed nested clause K5L: re-encoding keeps the length
        self.f[key] = seq
        P.__dict__.setdefault('abs_composed', []).append((getattr(self, 'abstract_of', None) or self.cls, self, seq))
    return self.f[key].copy('bytearray')


def collect_item_classes():
    from checks import census
    from cryptoparser.common.utils import get_leaf_classes
    for c in census.concrete_parsables():
        if issubclass(c, RB.ArrayBase):
            try:
                param = c.get_param()
            except Exception:
                continue
            ic = getattr(param, 'item_class', None)
            fb = getattr(param, 'fallback_class', None)
            for k in (ic, fb):
                if isinstance(k, type) and issubclass(k, ParsableBaseNoABC):
                    ITEM_CLASSES.add(k)
                    for leaf in get_leaf_classes(k):
                        ITEM_CLASSES.add(leaf)


def spec_arraybase_post_init(self):
    """X(v) for an abstract instance v of the same vector class X: the copy is again an abstract X (same items, the
    representation invariant of v carries over); every other case is interpreted from the body"""
    items = self.f.get('_items')
    if isinstance(items, SObj) and getattr(items, 'abstract', False) and items.cls is self.cls:
        self.abstract = True
        self.abstract_of = items.abstract_of
        self.abstract_id = items.abstract_id
        self.f.pop('_items', None)
        self.f.pop('_items_size', None)
        self.f['param'] = self.cls.get_param()
        if '_abs_compose' in items.f:
            self.f['_abs_compose'] = items.f['_abs_compose']
        return None
    raise I.Decline()


def close_over_variants():
    changed = True
    while changed:
        changed = False
        for c in list(ITEM_CLASSES):
            if isinstance(c, type) and issubclass(c, RB.VariantParsableBase):
                for t in c._get_variant_types():
                    if isinstance(t, type) and issubclass(t, ParsableBaseNoABC) and t not in ITEM_CLASSES:
                        ITEM_CLASSES.add(t)
                        changed = True


def register():
    from checks import census, e1
    collect_item_classes()
    close_over_variants()
    FRAMING_NAMES.update(e1.FRAMING)
    I.ABSTRACT_COMPOSE = spec_abstract_compose
    I.CONTRACTS[RB.ArrayBase.__attrs_post_init__] = spec_arraybase_post_init
    seen = set()
    for c in census.concrete_parsables():
        if census.is_text(c):
            continue
        for k in type.mro(c):
            d = k.__dict__.get('_parse')
            if d is not None:
                fn = getattr(d, '__func__', d)
                if fn not in seen and fn not in I.CONTRACTS:
                    seen.add(fn)
                    I.CONTRACTS[fn] = spec_nested_parse
                break
        for k in type.mro(c):
            d = k.__dict__.get('compose')
            if d is not None:
                if d not in I.CONTRACTS and callable(d):
                    I.CONTRACTS[d] = spec_abstract_compose
                break
