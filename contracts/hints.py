# sorts of constructor parameters that no attrs validator fixes (one line per field, DESIGN.md 3.3)
from pyvc import gen


def register():
    H = gen.HINTS
    from cryptoparser.tls.subprotocol import TlsAlertLevel, TlsAlertDescription
    H[('TlsAlertMessage', 'level')] = ('enum', TlsAlertLevel)
    H[('TlsAlertMessage', 'description')] = ('enum', TlsAlertDescription)
    H[('ProtocolVersionMajorMinorBase', 'major')] = ('int',)
    H[('ProtocolVersionMajorMinorBase', 'minor')] = ('int',)
    H[('TlsApplicationDataMessage', 'data')] = ('bytes', 'bytearray')
    H[('COTPConnectionBase', 'class_option')] = ('int',)
    H[('SshCertSignature', 'signature_data')] = ('bytes', 'bytearray')
    H[('OpenVpnPacketWrapperTcp', 'payload')] = ('bytes', 'bytearray')
    for c in ('OpenVpnPacketAckV1', 'OpenVpnPacketHardResetClientV2', 'OpenVpnPacketHardResetServerV2', 'OpenVpnPacketControlV1'):
        H[(c, 'session_id')] = ('int',)
        H[(c, 'remote_session_id')] = ('optional', ('int',))
        H[(c, 'packet_id_array')] = ('list', ('int',))
        H[(c, 'packet_id')] = ('int',)
    from cryptoparser.tls.extension import (TlsCertificateStatusType, TlsCertificateStatusRequestResponderIdList,
                                            TlsCertificateStatusRequestExtensions)
    H[('TlsHandshakeCertificateStatus', 'status_type')] = ('enum', TlsCertificateStatusType)
    H[('TlsHandshakeCertificateStatus', 'status')] = ('bytes', 'bytearray')
    H[('TlsExtensionCertificateStatusRequestClient', 'responder_id_list')] = ('vector', TlsCertificateStatusRequestResponderIdList)
    H[('TlsExtensionCertificateStatusRequestClient', 'extensions')] = ('vector', TlsCertificateStatusRequestExtensions)
    from cryptoparser.tls.extension import TlsSignatureAndHashAlgorithmVector
    H[('TlsHandshakeCertificateRequest', 'supported_signature_algorithms')] = ('optional', ('vector', TlsSignatureAndHashAlgorithmVector))
    from cryptoparser.tls.rdp import RDPProtocol, RDPNegotiationRequestFlags, RDPNegotiationResponseFlags
    from cryptoparser.tls.mysql import MySQLCapability, MySQLStatusFlag
    from cryptoparser.dnsrec.record import DnsSecFlag
    H[('RDPNegotiationRequest', 'flags')] = ('flags', RDPNegotiationRequestFlags)
    H[('RDPNegotiationResponse', 'flags')] = ('flags', RDPNegotiationResponseFlags)
    H[('RDPNegotiationBase', 'protocol')] = ('flags', RDPProtocol)
    H[('MySQLHandshakeV10', 'capabilities')] = ('flags', MySQLCapability)
    H[('MySQLHandshakeV10', 'states')] = ('flags', MySQLStatusFlag)
    H[('MySQLHandshakeSslRequest', 'capabilities')] = ('flags', MySQLCapability)
    H[('DnsRecordDnskey', 'flags')] = ('flags', DnsSecFlag)
    from cryptoparser.tls.subprotocol import SslErrorMessage, SslHandshakeClientHello, SslHandshakeServerHello
    H[('SslRecord', 'message')] = ('oneof', [SslErrorMessage])     # header framing is what the record adds; the handshake bodies have their own units
