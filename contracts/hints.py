# sorts of constructor parameters that no attrs validator fixes (one line per field, DESIGN.md 3.3)
from pyvc import gen


def register():
    H = gen.HINTS
    from cryptoparser.tls.subprotocol import TlsAlertLevel, TlsAlertDescription
    H[('TlsAlertMessage', 'level')] = ('enum', TlsAlertLevel)
    H[('TlsAlertMessage', 'description')] = ('enum', TlsAlertDescription)
    H[('ProtocolVersionMajorMinorBase', 'major')] = ('int',)
    H[('ProtocolVersionMajorMinorBase', 'minor')] = ('int',)
    H[('TlsApplicationDataMessage', 'data')] = ('bytes', 'bytearray')
    H[('COTPConnectionBase', 'class_option')] = ('int',)
