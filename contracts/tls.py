# loop contracts for cryptoparser/tls/*
from pyvc import loops, frame as F


def register():
    # MySQLHandshakeSslRequest.__attrs_post_init__: for capability in self.capabilities: if capability.value >= 2**16: raise
    # the body modifies nothing; iteration order of the set is irrelevant
    F.LOOPS[('MySQLHandshakeSslRequest.__attrs_post_init__', 0)] = loops.HavocLoop([])
