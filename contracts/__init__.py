def register_all():
    from contracts import common_parse, common_base
    common_parse.register()
    common_base.register()
    for name in ('nested', 'tls', 'ssh', 'dns', 'externals'):
        try:
            mod = __import__('contracts.' + name, fromlist=['register'])
        except ImportError:
            continue
        mod.register()
