# Sidecar contracts for cryptoparser/common/base.py
import z3

from cryptoparser.common import base as RB
from cryptoparser.common.base import (ArrayBase, VectorParamNumeric, OpaqueParam, VectorParamEnumCodeNumeric,
                                      VectorParamParsable, VectorParamString, VectorParamEnumCodeString)

from pyvc import values as V, engine as E, interp as I, ops, loops, frame as F
from pyvc.values import SSeq
from pyvc.ops import as_int


def fixed_item_size(param):
    """byte size of every item of a vector with this parameter object, or None if items have variable size"""
    if isinstance(param, (VectorParamNumeric, OpaqueParam)):
        return param.item_size if not isinstance(param, OpaqueParam) else 1
    if isinstance(param, VectorParamEnumCodeNumeric):
        return param.fallback_class.get_byte_num()
    if isinstance(param, VectorParamParsable) and isinstance(param.item_class, type):
        from contracts.common_parse import coded_kind
        from cryptoparser.common.utils import get_leaf_classes
        for classes in ([param.item_class], get_leaf_classes(param.item_class)):
            sp = coded_kind(list(classes), param.fallback_class)
            if sp is not None:
                return sp.width
    return None


# ArrayBase.__attrs_post_init__, loop 0:   for item in items: self._items.append(item); self._items_size += size(item)
#   invariant (functional form), k = number of completed iterations:
#       self._items == items[:k]   and   self._items_size == k * item_size          (fixed-size item kinds)
def loop_arraybase_post_init():
    def state(frame, ctx, k):
        me = frame.lookup('self')
        items = frame.lookup('items')
        param = I.getattr_(me, 'param')
        size = fixed_item_size(param)
        if isinstance(items, V.SObj) and issubclass(items.cls, ArrayBase) and isinstance(items.f.get('_items'), SSeq):
            # iterating a vector goes through __len__/__getitem__, i.e. over its _items
            items = items.f['_items']
        if size is None or not isinstance(items, SSeq):
            raise E.Unsupported('ArrayBase constructor over a symbolic number of variable-size items (%s)'
                                % type(param).__name__)
        return {'self._items': SSeq(k, items._at, 'list', items.elem),
                'self._items_size': ops.wrap_int(V.iv(k) * size)}
    return loops.FunctionalLoop(state)


# ArrayBase._update_items_size, loops 0 and 1:  for item in del_items / insert_items: size_diff -/+= size(item)
#   fixed-size item kinds:  size_diff == size_diff_at_entry -/+ k * item_size
def loop_update_items_size(sign):
    def state(frame, ctx, k):
        me = frame.lookup('self')
        size = fixed_item_size(I.getattr_(me, 'param'))
        if size is None:
            raise E.Unsupported('_update_items_size over a symbolic number of variable-size items')
        name = loops.remap_contract_names(frame, ctx, ['size_diff'])['size_diff']        # the accumulator, whatever it is called
        d0 = as_int(ctx.entry[name])
        return {'size_diff': ops.wrap_int(d0 + sign * V.iv(k) * size)}
    return loops.FunctionalLoop(state)


def register():
    F.LOOPS[('ArrayBase.__attrs_post_init__', 0)] = loop_arraybase_post_init()
    F.LOOPS[('ArrayBase._update_items_size', 0)] = loop_update_items_size(-1)
    F.LOOPS[('ArrayBase._update_items_size', 1)] = loop_update_items_size(+1)
    register_enum()


# ---------------------------------------------------------------------------------------------------------------
# NByteEnumParsable._parse(cls, parsable)            [C10: a known code decodes to the one member carrying it]
#   len < w            -> NotEnoughData(w - len)
#   code assigned      -> (first member in definition order whose value.code == code, w)
#   otherwise          -> InvalidValue
from cryptodatahub.common.exception import InvalidValue            # noqa: E402
from cryptoparser.common.exception import NotEnoughData            # noqa: E402
from cryptoparser.common.base import NByteEnumParsable             # noqa: E402
from pyvc import spec as S                                          # noqa: E402
from pyvc.values import SEnum, CodedSpec                            # noqa: E402

_CODED = {}


def coded_spec(enum_cls, fallback_cls, width, wrap_known=None):
    key = (enum_cls, fallback_cls, width, wrap_known)
    if key not in _CODED:
        _CODED[key] = CodedSpec(enum_cls, fallback_cls, width, wrap_known)
    return _CODED[key]


def spec_nbyte_enum_parse(cls, parsable):
    P = E.cur()
    if not isinstance(parsable, (SSeq, bytes, bytearray)):
        raise E.Unsupported('NByteEnumParsable._parse on %s' % type(parsable).__name__)
    p = ops.as_seq(parsable)
    w = cls.get_byte_num()
    enum_cls = cls.get_enum_class()
    if P.branch(p.n < w):
        raise E.PyRaise(I.construct(NotEnoughData, [], dict(bytes_needed=ops.wrap_int(w - p.n))))
    code = S.dec(p.at, 0, w, '!')
    sp = coded_spec(enum_cls, None, w)
    if P.branch(sp.known(code)):
        idx = V.simp(sp.first_index(code))
        m = sp.members[idx.as_long()] if z3.is_int_value(idx) else SEnum(enum_cls, idx)
        return m, w
    raise E.PyRaise(I.construct(InvalidValue, [ops.wrap_int(code), cls, 'code'], {}))


class EnumListLoop(loops.FunctionalLoop):
    """for enum_item in list(EnumClass): iterate symbolically over the member index"""
    force = True

    def view(self, frame, it):
        items = list(it)
        cls = type(items[0])
        assert items == list(cls)
        return 'symbolic', z3.IntVal(len(items)), lambda k, cls=cls: SEnum(cls, V.simp(V.iv(k)))


def loop_nbyte_enum_parse():
    def state(frame, ctx, k):
        return {}

    def qfacts(frame, ctx):
        cls = frame.lookup('cls')
        enum_cls = cls.get_enum_class()
        code = as_int(frame.subscript(frame.lookup('parser'), 'code'))
        return [lambda j: V.enum_table(enum_cls, j, lambda m: m.value.code) != code]
    return EnumListLoop(state, qfacts)


def register_enum():
    I.CONTRACTS[NByteEnumParsable._parse.__func__] = spec_nbyte_enum_parse
    F.LOOPS[('NByteEnumParsable._parse', 0)] = loop_nbyte_enum_parse()
