# Assumed contracts of the digest / text-encoding dependencies used by the fingerprint code (hashlib, binascii, base64,
# textwrap, cryptodatahub.common.utils): each is an UNINTERPRETED function of its argument -- the proofs of C16 decide
# which function is applied to which bytes/text, not what MD5 or base64 compute. Results are values.SAbs trees:
#   SAbs('digest', attrs={'hash': name, 'of': payload})      payload: SSeq bytes | SText | bytes
#   SAbs('hex' | 'hexlify' | 'b64' | 'wrap', attrs={'of': x, ...})
import base64
import binascii
import hashlib
import textwrap

import six
import z3

from pyvc import values as V, engine as E, interp as I, models
from pyvc.values import SAbs, SSeq, SStr, SText


def _abs(kind, **attrs):
    return SAbs(kind, V.fresh_int(kind), None, attrs)


def _hash_object(name, initial=None):
    state = dict(chunks=[] if initial is None else [initial])

    def update(data):
        state['chunks'].append(data)
    I.MODELS[update] = update

    def digest():
        if len(state['chunks']) != 1:
            raise E.Unsupported('digest over %d update() calls' % len(state['chunks']))
        return _abs('digest', hash=name, of=state['chunks'][0])
    I.MODELS[digest] = digest

    def hexdigest():
        return _abs('hex', of=digest(), lowercase=True, separator='')
    I.MODELS[hexdigest] = hexdigest
    return SAbs('hash_object', V.fresh_int('hash_object'), None, dict(update=update, digest=digest, hexdigest=hexdigest))


def m_md5(*a):
    models.used('hashlib.md5: uninterpreted digest of its input')
    return _hash_object('md5', a[0] if a else None)


def m_hash_bytes(hash_algorithm, hashable_value):
    models.used('cryptodatahub hash_bytes: uninterpreted digest of its input, named by the Hash member')
    return _abs('digest', hash=getattr(hash_algorithm, 'name', hash_algorithm), of=hashable_value)


def m_bytes_to_hex_string(byte_array, separator='', lowercase=False):
    return _abs('hex', of=byte_array, lowercase=lowercase, separator=separator)


def m_hexlify(data, *a):
    return _abs('hexlify', of=data)


def m_b64encode(data, *a):
    return _abs('b64', of=data)


def m_wrap(text, width=70, **kw):
    return _abs('wrap', of=text, width=width)


def register():
    I.MODELS[hashlib.md5] = m_md5
    from cryptodatahub.common import utils as CU
    I.MODELS[CU.hash_bytes] = m_hash_bytes
    I.MODELS[CU.bytes_to_hex_string] = m_bytes_to_hex_string
    from cryptoparser.common import utils as PU
    if getattr(PU, 'bytes_to_hex_string', None) is not None:
        I.MODELS[PU.bytes_to_hex_string] = m_bytes_to_hex_string
    I.MODELS[binascii.hexlify] = m_hexlify
    I.MODELS[base64.b64encode] = m_b64encode
    I.MODELS[textwrap.wrap] = m_wrap
    import collections

    def ordered_dict(*a, **k):
        if a and not isinstance(a[0], (list, tuple, dict)):
            raise E.Unsupported('OrderedDict(%s)' % type(a[0]).__name__)
        return collections.OrderedDict(*a, **k)        # keys are concrete; values are carried as they are
    I.MODELS[collections.OrderedDict] = ordered_dict
    inner_text, inner_bin = I.MODELS.get(six.ensure_text), I.MODELS.get(six.ensure_binary)

    def ensure_text(s, encoding='utf-8', errors='strict'):
        if isinstance(s, SAbs) and s.kind in ('hexlify', 'b64', 'hex'):
            return s                                   # ASCII by construction: decoding is the identity on the abstraction
        return inner_text(s, encoding, errors)

    def ensure_binary(s, encoding='utf-8', errors='strict'):
        if isinstance(s, SText):
            # text assembled from ASCII names and separators: its encoding is kept as the same structured text
            return s
        return inner_binary(s, encoding, errors)
    inner_binary = inner_bin
    I.MODELS[six.ensure_text] = ensure_text
    I.MODELS[six.ensure_binary] = ensure_binary
