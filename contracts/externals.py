# Assumed contracts of *external* functions (dependencies of the repository, not verified): result type and raise-set.
# Each is listed in the evidence under assumptions when used. Raise conditions that were observed to be exact are
# stated exactly (so that counterexamples replay); the others are over-approximated ("may raise for any input") and
# paths that take such a raise are flagged as over-approximated.
import ipaddress

import z3

from cryptodatahub.common import key as CK
from cryptodatahub.common import stores as CS

from pyvc import values as V, engine as E, interp as I, ops, models
from pyvc.values import SAbs, SSeq, SObj
from pyvc.ops import raise_


def _abs(kind, py_type, attrs=None):
    return SAbs(kind, V.fresh_int(kind), py_type, attrs)


def _some_key_type():
    """key_type of an external public key object: some member of Authentication (over-approximation)"""
    from cryptodatahub.common.algorithm import Authentication
    P = E.cur()
    idx = V.fresh_int('key_type')
    P.assume(z3.And(idx >= 0, idx < len(list(Authentication))))
    return V.SEnum(Authentication, idx)


def _some_params():
    from cryptodatahub.common.algorithm import NamedGroup
    P = E.cur()
    idx = V.fresh_int('named_group')
    P.assume(z3.And(idx >= 0, idx < len(list(NamedGroup))))
    return _abs('PublicKeyParams', object, dict(named_group=V.SEnum(NamedGroup, idx), modulus=V.SInt(V.fresh_int('modulus'))))


def m_from_params(cls, params):
    models.used('cryptodatahub PublicKey.from_params(params): returns a PublicKey whose .params are the given parameters; '
                '.key_type is some member of Authentication; for ECDSA parameters it raises ValueError (math domain error, '
                'asn1crypto ECPointBitString.from_coords) iff a coordinate is not positive')
    if isinstance(params, SObj) and params.cls is CK.PublicKeyParamsEcdsa and 'point_x' in params.f and 'point_y' in params.f:
        P = E.cur()
        x, y = params.f['point_x'], params.f['point_y']
        if ops.is_intlike(x) and ops.is_intlike(y):
            if P.branch(z3.Or(ops.as_int(x) <= 0, ops.as_int(y) <= 0)):
                raise_(ValueError, 'math domain error')
    if isinstance(params, (SObj, SAbs)):
        return _abs('PublicKey', CK.PublicKey, dict(key_type=_some_key_type(), params=params))
    return _abs('PublicKey', CK.PublicKey, dict(key_type=_some_key_type(), params=_some_params()))


def m_from_octet_bit_string(cls, named_group, data):
    models.used('cryptodatahub PublicKeyParamsEcdsa.from_octet_bit_string: ValueError iff the point string is empty or its '
                'first byte is not 0x04 (asn1crypto ECPointBitString.to_coords), else a params object')
    P = E.cur()
    if not isinstance(data, (SSeq, bytes, bytearray)):
        raise E.Unsupported('from_octet_bit_string(%s)' % type(data).__name__)
    d = ops.as_seq(data)
    if P.branch(z3.Or(d.n == 0, d.at(0) != 4)):
        raise_(ValueError, 'Invalid EC public key - first byte is incorrect')
    return _abs('PublicKeyParamsEcdsa', CK.PublicKeyParamsEcdsa)


def m_from_der(cls, der):
    models.used('cryptodatahub PublicKeyX509Base.from_der: returns a certificate object or raises ValueError (asn1crypto) '
                'for byte strings that are not DER certificates [raise condition over-approximated]')
    P = E.cur()
    if P.choose('from_der ValueError'):
        P.overapprox.append('PublicKeyX509.from_der ValueError (assumed raise-set)')
        raise_(ValueError, 'Insufficient data')
    return _abs('PublicKeyX509', cls, dict(key_type=_some_key_type(), params=_some_params()))


def m_from_log_id(cls, log_id):
    models.used('cryptodatahub CertificateTransparencyLog.from_log_id: returns a known or an "unknown" log object (never raises)')
    return _abs('CertificateTransparencyLog', CS.CertificateTransparencyLogParamsBase)


def m_ip_network(addr, *a, **k):
    if not V.is_symbolic(addr):
        return I.native(ipaddress.ip_network, [addr] + list(a), k)
    models.used('ipaddress.ip_network(text): returns a network object or raises ValueError [over-approximated]')
    P = E.cur()
    if P.choose('ip_network ValueError'):
        P.overapprox.append('ipaddress.ip_network ValueError (assumed raise-set)')
        raise_(ValueError, 'does not appear to be an IPv4 or IPv6 network')
    return _abs('ip_network', ipaddress.IPv4Network)


def register():
    I.MODELS[CK.PublicKey.from_params.__func__] = m_from_params
    I.MODELS[CK.PublicKeyParamsEcdsa.from_octet_bit_string.__func__] = m_from_octet_bit_string
    I.MODELS[CK.PublicKeyX509Base.from_der.__func__] = m_from_der
    I.MODELS[CS.CertificateTransparencyLogBase.from_log_id.__func__] = m_from_log_id
    I.MODELS[ipaddress.ip_network] = m_ip_network
