#!/bin/sh
# Builds /verif/.venv: python 3.12 of /venv (the interpreter the repository's tests use) plus the z3-solver,
# cvc5 and jsonschema wheels from the offline wheelhouse. A .pth file makes /venv's site-packages (attrs, six,
# cryptodatahub, asn1crypto, ... and the editable install of /repo) importable. Offline and idempotent.
set -e
cd "$(dirname "$0")"
V=.venv
WH=/opt/veriftools/wheels
if [ -x "$V/bin/python" ] && "$V/bin/python" -c 'import z3, cvc5, jsonschema, attr, cryptodatahub' 2>/dev/null; then
    echo "setup: $V already usable"
    exit 0
fi
rm -rf "$V"
/venv/bin/python -m venv "$V" --without-pip
SP="$V/lib/python3.12/site-packages"
PIP_NO_INDEX=1 /venv/bin/python -m pip install --quiet --no-index --find-links "$WH" --target "$SP" \
    z3-solver cvc5 jsonschema >/dev/null 2>&1 || \
PIP_NO_INDEX=1 python3-vt -m pip install --quiet --no-index --find-links "$WH" --target "$SP" \
    --python-version 3.12 --only-binary=:all: z3-solver cvc5 jsonschema
echo "import site; site.addsitedir('/venv/lib/python3.12/site-packages')" > "$SP/zz_venv_overlay.pth"
"$V/bin/python" -c 'import z3, cvc5, jsonschema, attr, six, cryptodatahub; print("setup: ok, z3", z3.get_version_string())'
