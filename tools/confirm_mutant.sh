#!/bin/sh
# usage: tools/confirm_mutant.sh <Cxx> <k>   -- confirms a sub-agent's seeded change in the scratch worktree /tmp/wt/<Cxx>
#   clean tree: demo passes; with the change: test suite passes and demo fails. Then copies it to /verif/seeded/<Cxx>-<k>/
P="$1"; K="$2"; WT=/tmp/wt/$P; OUT=/tmp/wt/${P}_out
cd $WT && git checkout -q -- . && git clean -fdq
cp $OUT/demo$K.py $WT/demo.py
/venv/bin/python demo.py > /tmp/demo_clean.out 2>&1; rc_clean=$?
git apply $OUT/mutation$K.diff || { echo "APPLY FAILED"; exit 9; }
/venv/bin/python -m pytest -q -p no:cacheprovider --deselect test/httpx/test_header.py::TestCasesBasesHttpHeader > /tmp/demo_tests.out 2>&1; rc_tests=$?
/venv/bin/python demo.py > /tmp/demo_mut.out 2>&1; rc_mut=$?
git checkout -q -- . ; rm -f demo.py; git clean -fdq
echo "$P-$K clean_demo_rc=$rc_clean tests_rc=$rc_tests mutant_demo_rc=$rc_mut | $(tail -1 /tmp/demo_tests.out)"
if [ $rc_clean -eq 0 ] && [ $rc_tests -eq 0 ] && [ $rc_mut -ne 0 ]; then
  D=/verif/seeded/$P-$K; mkdir -p $D
  cp $OUT/mutation$K.diff $D/patch.diff; cp $OUT/demo$K.py $D/demo.py; cp $OUT/notes$K.md $D/notes.md 2>/dev/null
  echo CONFIRMED
else
  echo NOT-CONFIRMED
fi
