#!/bin/sh
# usage: tools/confirm_mutant2.sh <group> <Cxx> <k>  -- like confirm_mutant.sh for sub-agents that share one worktree /tmp/wt/<group>
#   and name their files mutation<Cxx>.diff / demo<Cxx>.py / notes<Cxx>.md; the change is stored as seeded/<Cxx>-<k>/
G="$1"; P="$2"; K="$3"; WT=/tmp/wt/$G; OUT=/tmp/wt/${G}_out
cd $WT && git checkout -q -- . && git clean -fdq
cp $OUT/demo$P.py $WT/demo.py
/venv/bin/python demo.py > /tmp/demo_clean.out 2>&1; rc_clean=$?
git apply $OUT/mutation$P.diff || { echo "APPLY FAILED"; exit 9; }
/venv/bin/python -m pytest -q -p no:cacheprovider --deselect test/httpx/test_header.py::TestCasesBasesHttpHeader > /tmp/demo_tests.out 2>&1; rc_tests=$?
/venv/bin/python demo.py > /tmp/demo_mut.out 2>&1; rc_mut=$?
git checkout -q -- . ; rm -f demo.py; git clean -fdq
echo "$P-$K clean_demo_rc=$rc_clean tests_rc=$rc_tests mutant_demo_rc=$rc_mut | $(tail -1 /tmp/demo_tests.out)"
if [ $rc_clean -eq 0 ] && [ $rc_tests -eq 0 ] && [ $rc_mut -ne 0 ]; then
  D=/verif/seeded/$P-$K; mkdir -p $D
  cp $OUT/mutation$P.diff $D/patch.diff; cp $OUT/demo$P.py $D/demo.py; cp $OUT/notes$P.md $D/notes.md 2>/dev/null
  echo CONFIRMED
else
  echo NOT-CONFIRMED
fi
