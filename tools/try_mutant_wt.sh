#!/bin/sh
# usage: tools/try_mutant_wt.sh <patch.diff> <Cxx>...   -- applies the patch in a scratch worktree (never /repo), runs the checks there
D="$(realpath "$1")"; shift
WT=/tmp/wt/try$$
git -C /repo worktree add -q --detach "$WT" HEAD || exit 9
( cd "$WT" && git apply "$D" ) || { echo "patch does not apply"; git -C /repo worktree remove --force "$WT"; exit 9; }
cd /verif
for C in "$@"; do
  VERIF_REPO="$WT" VERIF_EVIDENCE_DIR=/tmp/wt/evidence_try VERIF_UNIT_BUDGET=${VERIF_UNIT_BUDGET:-90} ./check "$C" --tier quick > /tmp/mut_$C.out 2>&1; rc=$?
  echo "== $C exit=$rc"; grep -v "^KNOWN" /tmp/mut_$C.out | grep "VIOLATION\|quick:\|UNDECIDED\|CHECKER" | head -6 | cut -c1-220
done
git -C /repo worktree remove --force "$WT"
