#!/usr/bin/env python3
"""Runs the claimed quick checks against every seeded change (in a scratch worktree of /repo, never in /repo itself)
and records in seeded/<id>/meta.json which checks report a violation."""
import json, os, subprocess, sys, re
HERE = os.path.dirname(os.path.dirname(os.path.abspath(__file__)))
WT = os.environ.get('EVAL_WT', '/tmp/wt/eval')
only = sys.argv[1:]
claimed = [c['property_id'] for c in json.load(open(os.path.join(HERE, 'MANIFEST.json')))['checks']]
subprocess.run(['git', '-C', '/repo', 'worktree', 'remove', '--force', WT], stderr=subprocess.DEVNULL)
subprocess.check_call(['git', '-C', '/repo', 'worktree', 'add', '-q', '--detach', WT, 'HEAD'])
try:
    for d in sorted(os.listdir(os.path.join(HERE, 'seeded'))):
        if only and d not in only:
            continue
        sd = os.path.join(HERE, 'seeded', d)
        patch = os.path.join(sd, 'patch.diff')
        if not os.path.exists(patch):
            continue
        prop = d.split('-')[0]
        subprocess.check_call(['git', '-C', WT, 'checkout', '-q', '--', '.'])
        if subprocess.call(['git', '-C', WT, 'apply', patch]) != 0:
            print(d, 'PATCH DOES NOT APPLY to current HEAD'); continue
        results = {}
        related = {'C01': ['C11', 'C12', 'C07'], 'C04': ['C03'], 'C06': ['C01', 'C13'], 'C09': ['C01'], 'C10': ['C01', 'C11'], 'C05': ['C01', 'C09'],
                   'C13': ['C01', 'C15'], 'C15': ['C01', 'C06'], 'C16': ['C07', 'C11'], 'C19': ['C02']}
        order = [prop] + [c for c in related.get(prop, []) if c in claimed]
        for c in order:
            if c not in claimed:
                results[c] = dict(exit=None, note='property not claimed')
                continue
            env = dict(os.environ, VERIF_REPO=WT, VERIF_UNIT_BUDGET='90', VERIF_EVIDENCE_DIR=WT + '_evidence')
            p = subprocess.run(['./check', c, '--tier', 'quick'], cwd=HERE, env=env, capture_output=True, text=True)
            viol = [l for l in p.stdout.splitlines() if l.startswith('VIOLATION')]
            results[c] = dict(exit=p.returncode, violations=[v[:200] for v in viol[:4]], n_violations=len(viol))
        det = [c for c, r in results.items() if r.get('exit') == 1]
        notes = open(os.path.join(sd, 'notes.md')).read() if os.path.exists(os.path.join(sd, 'notes.md')) else ''
        meta = dict(id=d, property=prop, patch='patch.diff', demonstration='demo.py',
                    needs_to_manifest=notes[:1500],
                    confirmed=dict(how='tools/confirm_mutant.sh in the scratch worktree /tmp/wt/%s: demo passes on the clean tree, the 637 baseline tests pass with the change, demo fails with the change' % prop),
                    evaluation=dict(how='tools/eval_seeded.py: patch applied in the scratch worktree %s (VERIF_REPO), every claimed quick check run, worktree reverted' % WT,
                                    repo_head=subprocess.check_output(['git', '-C', '/repo', 'rev-parse', '--short', 'HEAD']).decode().strip(),
                                    results=results, detected_by=det, detected_by_own_property_check=prop in det))
        np = os.path.join(sd, 'miss_note.txt')
        if os.path.exists(np):
            meta['evaluation']['note'] = open(np).read().strip()
        json.dump(meta, open(os.path.join(sd, 'meta.json'), 'w'), indent=1)
        print(d, 'detected_by', det, flush=True)
finally:
    subprocess.run(['git', '-C', '/repo', 'worktree', 'remove', '--force', WT])
