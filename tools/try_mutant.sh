#!/bin/sh
# usage: tools/try_mutant.sh <Cxx> <patch.diff> [other checks...]   -- applies the patch to /repo, runs the check(s), reverts
P="$1"; D="$2"; shift 2
cd /repo && git apply "$D" || { echo "patch does not apply"; exit 9; }
cd /verif
for C in "$P" "$@"; do
  VERIF_UNIT_BUDGET=${VERIF_UNIT_BUDGET:-90} ./check "$C" --tier quick > /tmp/mut_$C.out 2>&1; rc=$?
  echo "== $C exit=$rc"; grep -v "^KNOWN" /tmp/mut_$C.out | grep "VIOLATION\|quick:\|UNDECIDED\|CHECKER" | head -6 | cut -c1-220
done
git -C /repo checkout -- . ; git -C /repo status --short | head -3
