"""development probe: symbolic parse of an arbitrary buffer for every binary class; prints outcomes and gaps"""
import sys, multiprocessing, signal
sys.path.insert(0, '/verif'); sys.path.insert(0, '/repo')
from pyvc import values as V, engine as E, interp as I, vc
from contracts import common_parse as CP, common_base as CB
from checks import census, common
CP.register(); CB.register(); common.setup()
from pyvc import frame as F
F.BOUNDS[("ParserBinary._parse_parsable_derived_array", 0)] = 2
try:
    from contracts import register_all
    register_all()
except ImportError:
    pass
classes = [c for c in census.concrete_parsables() if not census.is_text(c)]

class TO(Exception): pass
def _h(*a): raise TO()

def run(i):
    c = classes[i]
    def thunk():
        P = E.cur()
        buf, facts = V.base_seq('buf'); [P.assume(f) for f in facts]
        P.inputs['buf'] = buf
        return I.call(c.parse_immutable, [buf], {})
    signal.signal(signal.SIGALRM, _h); signal.alarm(int(sys.argv[1]) if len(sys.argv) > 1 and sys.argv[1].isdigit() else 90)
    try:
        r = vc.run_unit(c.__name__, thunk, max_paths=600)
    except TO:
        return i, None, 'timeout'
    except BaseException as e:
        return i, None, repr(e)
    signal.alarm(0)
    return i, (r.paths, r.outcomes, r.unsupported[:4], (r.error or '').strip().splitlines()[-1:], round(r.seconds, 1)), None

if __name__ == '__main__':
    only = [a for a in sys.argv[1:] if not a.isdigit()]
    idx = [i for i, c in enumerate(classes) if not only or c.__name__ in only]
    with multiprocessing.get_context('fork').Pool(16) as pool:
        for i, res, err in pool.imap_unordered(run, idx):
            print(classes[i].__module__.split('.')[-1], classes[i].__name__, res, err, flush=True)
