#!/usr/bin/env python3
"""(re)generates MANIFEST.json from the table below"""
import json, os
HERE = os.path.dirname(os.path.dirname(os.path.abspath(__file__)))
CLAIMED = {
    'C11': dict(ref='5.11', text='Every obligation generated from the current source of ParserBinary/ComposerBinary primitives is discharged by z3 for all values and all lengths: each primitive refines a specification function stated from the property (positional digits, rejection instead of truncation, exact consumed length), loops by inductive loop contracts; property statements over the public wrappers use the callees by contract.',
                note='pyvc (the AST symbolic interpreter) and its library models (struct, six, attrs, datetime) are trusted, as are z3 unsat answers; NATIVE byte order is taken as little-endian; see evidence assumptions.',
                technique='contract-based deductive verification: sidecar specification functions + loop contracts on the real source, VCs generated from the AST at every run, discharged by z3'),
}
CLAIMED['C17'] = dict(ref='5.17', text='The real __lt__/__eq__ and the interpreted functools.total_ordering derivations are explored on symbolic members ranging over the whole installed TlsVersion table; trichotomy, transitivity over triples, hash consistency, consistency of <=,>,>= and the stated chain are discharged by z3 for every pair/triple at once.',
                note='TlsVersion table taken as installed; attrs hash assumed to be a function of the member; pyvc and z3 trusted.',
                technique='contract-based deductive verification: order axioms as postconditions over symbolic enum members, real source interpreted, z3')
CLAIMED['C02'] = dict(ref='5.2', text='Clause K1 for every binary-layer parsable class: the real _parse is explored on an arbitrary symbolic buffer; every implicit Python exception site (subscripts, dict lookups, Enum(value), attrs validators, struct, codecs, next()) is a fork, and on every path the escaping exception is one of the four parse errors. Nested parsables are used through their own K1/K2 clauses (assume-guarantee), primitives and containers through verified contracts. Vectors of variable-size items are explored up to two items (reported as bounded, not counted).',
                note='externals (asn1crypto, cryptodatahub key/stores, ipaddress, codecs) enter with assumed raise-sets listed in the evidence; text-layer classes are not covered; pyvc and z3 trusted.',
                technique='contract-based deductive verification: exception-set postcondition K1 over symbolic execution of the real source with sidecar contracts, z3')
CLAIMED['C03'] = dict(ref='5.3', text='K2 (0 <= n <= len, n >= 1 for framing units and for vector items on non-empty input) on every accepting path of every binary class; the frame conditions of parse_mutable / parse_exact_size / parse_immutable proved once against the class contract; K8 for the framing units as a two-run obligation (same prefix, arbitrary other suffix => same object and n) plus n == the length the header declares, with the declared length written independently from the protocol documents.',
                note='nested parsers enter through their own K1/K2/K8 clauses (assume-guarantee) and are assumed deterministic; LDAP frames (asn1crypto) and the text-layer SSH banner are not covered; TlsHandshakeMessageVariant K8 not covered (members are).',
                technique='contract-based deductive verification: length/frame postconditions and a 2-run locality obligation over symbolic execution of the real source, z3')
CLAIMED['C10'] = dict(ref='5.10', text='For every NByteEnumParsable factory the real linear search is proved, for the whole code space at once (symbolic code, loop contract over the member table), to return the first member carrying the code or raise InvalidValue; decoded members carry the wire code and re-encode to the same bytes; coded vectors keep every item, preserve unknown/GREASE codes through parse and compose for any number of items, and classify GREASE exactly; installed tables are checked for names sharing a code.',
                note='cryptodatahub tables taken as installed; string-coded enumerations (text layer) are covered by the ground table obligations only; pyvc and z3 trusted.',
                technique='contract-based deductive verification: table-lookup contract refined by the real search loop (loop contract), symbolic code space, z3; ground table obligations decided natively')
CLAIMED['C12'] = dict(ref='5.12', text='For every vector class with fixed-size items (numeric, opaque, coded) and every sequence operation (insert, append, del/pop by index, item assignment, slice deletion, slice assignment, extend, +=, clear, reverse), starting from an arbitrary vector that satisfies the representation invariant (symbolic length, contents, position and values): success implies the invariant and the result a plain list would hold, a refused edit raises a data-length error (or the list IndexError) and changes nothing; compose() emits a prefix equal to the body size that fits its width. Preservation by every operation makes the invariant inductive over edit histories of any length.',
                note='vectors of variable-size items (size is a sum over items) and MutableSequence.remove are not covered; MutableSequence mix-ins interpreted from the stdlib source; pyvc and z3 trusted.',
                technique='contract-based deductive verification: representation invariant + refinement to a list model per operation (inductive over histories), loop contracts, z3')
CLAIMED['C01'] = dict(ref='5.1', text='Clause K3 for the binary-layer classes listed in the evidence: a symbolic object is built by the real constructor from type-directed symbolic arguments (the domain is what constructor and compose accept), composed, followed by arbitrary bytes and parsed again; acceptance, consumed length == composed length and field-wise equality are discharged by z3 for all field values; coded and numeric vectors of any length via loop contracts. Classes outside the supported subset and text-layer classes are named as uncovered; genuine asymmetries are known findings whose regions are excluded and replayed on every run.',
                note='domain clauses: ASCII text fields, whole-second instants, fallback items carry unassigned codes; vectors of variable-size items with at most 1 item are bounded units (not counted); externals by assumed contracts; pyvc and z3 trusted.',
                technique='contract-based deductive verification: round-trip postcondition K3 over symbolic execution of the real compose/_parse with sidecar contracts and loop contracts, z3')
CLAIMED['C04'] = dict(ref='5.4', text='Clause K7 for the framing units listed in the evidence: for a symbolic valid frame and a symbolic cut position m < len (every cut, inside headers and length fields included) the parser raises NotEnoughData(k) with 1 <= k <= bytes really missing and never accepts the prefix; the reader-loop statement is a lemma over K7, K3 (C01) and K8 (C03).',
                note='TLS hello messages, SSL 2.0 and SSH records are not covered by K7 yet (exploration budget / generator hints); LDAP is external; same domain clauses as C01.',
                technique='contract-based deductive verification: prefix-rejection postcondition K7 with a symbolic cut position over the real compose/_parse, z3')
CLAIMED['C06'] = dict(ref='5.6', text='Clause K6 for 50 TLS classes: compose() of a symbolic valid object equals, byte for byte and for all field values, the encoding produced by specification functions written from the cited RFC sections over independent combinators (never calling repository code), so a mistake made consistently in parse and compose is still caught; K3 of the same classes gives the parsing direction.',
                note='the specification functions are transcribed from the RFCs from memory (no RFC text in the sandbox), each with its citation; hello messages, certificate request and the classes listed as uncovered have no K6 yet.',
                technique='contract-based deductive verification: compose() == spec_RFC(fields) as postcondition over symbolic objects, z3')
CLAIMED['C09'] = dict(ref='5.9', text='Clause K6 + K3 for TPKT, X.224 CR/CC, RDP negotiation request/response, MySQL packet header, OpenVPN control packets and TCP wrapper, PostgreSQL SSLRequest and its answer: compose() equals the specification encoding written from the protocol documents; the parsed class equals the class on the wire (class is part of object equality in K3).',
                note='MySQL HandshakeV10/SSLRequest bodies and LDAP (asn1crypto) are not covered; the X.224 reference-field order is a known finding (test vectors pin it).',
                technique='contract-based deductive verification: compose() == spec_PROTOCOL(fields) and round trip as postconditions over symbolic objects, z3')
CLAIMED['C13'] = dict(ref='5.13', text='K9: compose() leaves the object equal to a snapshot on success and on failure (all classes of the E2 exploration, plus ClientHello with a symbolic-length cipher suite vector and symbolic SCSV flags, second compose equal); no parsed object references the caller\'s mutable buffer (identity walk over the object graph of every accepting path of every binary class parsed from a symbolic bytearray); ground obligations on every attrs declaration of the repository: a mutable default must be produced per instance.',
                note='JSON/Markdown serialisation and the hassh/fingerprint observers are not covered (C14/C16 territory); object identity of mutable values is the identity of interpreter objects; the 20 shared defaults present in the pinned tree are a known finding listed field by field.',
                technique='contract-based deductive verification: frame conditions (snapshot equality on every exit, freshness/non-aliasing of results) over symbolic execution of the real code, z3; declarations scanned natively')
PENDING = {}
NA = {
    'C18': 'relational property over RFC text grammars; every code path is ParserText scanning loops, attrs reflection in FieldValueMultiple, dateutil/urllib3/json: no contract within reach of the installed SMT back ends expresses or decides it (DESIGN.md 5.18)',
}
ALL = ['C%02d' % i for i in range(1, 20)]
for p in ALL:
    if p not in CLAIMED and p not in NA:
        PENDING[p] = 'not yet under contract in this revision of /verif (work in progress, see DESIGN.md section 8); no check is claimed'
checks = []
for p, d in sorted(CLAIMED.items()):
    checks.append(dict(property_id=p, quick_cmd='./check %s --tier quick' % p, thorough_cmd='./check %s --tier thorough' % p,
                       evidence_file='evidence/%s.json' % p, replay_cmd_template='./check %s --replay {path}' % p, engine='pyvc',
                       level_claimed=dict(category='proof', text=d['text'], design_ref='DESIGN.md section ' + d['ref']),
                       level_note=d['note'], technique=d['technique']))
m = dict(version=1, setup_cmd='./setup.sh',
         hooks=dict(guard='CRYPTOPARSER_VERIF', enable='no hooks: the verifier reads the source text of /repo (inspect.getsource) and never instruments it',
                    baseline_off_cmd='cd /repo && /venv/bin/python -m pytest -ra -q -p no:cacheprovider --timeout=900 --continue-on-collection-errors',
                    source_commits=[], add_only=True),
         engines=[dict(name='pyvc', path='pyvc/', serves_properties=sorted(CLAIMED), kind_free_text='verification-condition generator over the real Python source (AST symbolic interpreter, sidecar contracts, loop contracts) + z3')],
         checks=checks,
         not_applicable=[dict(property_id=p, reason=r) for p, r in sorted({**NA, **PENDING}.items())],
         notes='Contracts live in /verif/contracts, checks in /verif/checks; known findings and fixed defects in known_findings.json.')
json.dump(m, open(os.path.join(HERE, 'MANIFEST.json'), 'w'), indent=1)
print('claimed', sorted(CLAIMED), 'not_applicable', sorted({**NA, **PENDING}))
