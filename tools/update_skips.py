#!/usr/bin/env python3
"""Adds a 'skip' entry (with the reason the verifier gave) to checks/classes.json for every class whose unit in
evidence/<prop>.json is undecided, errored, or failed WITHOUT a natively replayed witness. Replayed violations are
never skipped here: they are defects to repair or to list as known findings by hand."""
import json, sys, os
HERE = os.path.dirname(os.path.dirname(os.path.abspath(__file__)))
prop, clause = sys.argv[1], (sys.argv[2] if len(sys.argv) > 2 else sys.argv[1])
prefix = sys.argv[3] if len(sys.argv) > 3 else None
e = json.load(open(os.path.join(HERE, 'evidence', prop + '.json')))
p = os.path.join(HERE, 'checks', 'classes.json')
t = json.load(open(p))
n = 0
for u in e['coverage']['per_unit']:
    if '/' not in u['unit']:
        continue
    kind, key = u['unit'].split('/', 1)
    if prefix and kind != prefix:
        continue
    st = u.get('status') or ''
    if 'replayed' in st or st.startswith('known finding'):
        continue
    bad = st or u.get('error') or u.get('unsupported') or u['obligations'] == 0
    if not bad:
        continue
    why = []
    if u.get('unsupported'):
        why.append('outside the verifier\'s supported subset: ' + '; '.join(u['unsupported'])[:220])
    if u.get('error'):
        why.append('verifier error: ' + u['error'].strip().splitlines()[-1][:160])
    for o in (u.get('not_discharged') or [])[:2]:
        why.append('obligation not discharged and no native witness found (undecided): ' + o['name'][:140])
    if not why:
        why.append('no obligations generated')
    t.setdefault(key, {}).setdefault('skip', {})[clause] = ' | '.join(why)
    n += 1
json.dump(t, open(p, 'w'), indent=1, sort_keys=True)
print('skips added:', n)
