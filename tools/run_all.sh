#!/bin/sh
# runs every claimed quick check on the current tree and prints one line per check
cd /verif
for c in $(python3 -c "import json; print(' '.join(c['property_id'] for c in json.load(open('MANIFEST.json'))['checks']))"); do
  VERIF_UNIT_BUDGET=${VERIF_UNIT_BUDGET:-90} ./check $c --tier quick > /tmp/all_$c.out 2>&1; rc=$?
  echo "$c exit=$rc $(grep 'quick:' /tmp/all_$c.out | cut -c1-150)"
done
