#!/usr/bin/env python3
"""Run the repository's pinned test command (guard off) and compare with /root/.vp/BASELINE.json stable_pass."""
import json, subprocess, sys, tempfile, os, xml.etree.ElementTree as ET
repo = sys.argv[1] if len(sys.argv) > 1 else '/repo'
base = json.load(open('/root/.vp/BASELINE.json'))
with tempfile.TemporaryDirectory() as d:
    out = os.path.join(d, 'j.xml')
    subprocess.run(['/venv/bin/python', '-m', 'pytest', '-ra', '-q', '-p', 'no:cacheprovider', '--timeout=900',
                    '--continue-on-collection-errors', '--junitxml=' + out], cwd=repo, stdout=subprocess.DEVNULL,
                   stderr=subprocess.DEVNULL, env=dict(os.environ, PYTHONDONTWRITEBYTECODE='1'))
    passed = set()
    for tc in ET.parse(out).getroot().iter('testcase'):
        if not any(c.tag in ('failure', 'error', 'skipped') for c in tc):
            passed.add('%s::%s' % (tc.get('classname'), tc.get('name')))
missing = [t for t in base['stable_pass'] if t not in passed]
print('stable_pass', len(base['stable_pass']), 'passed now', len(passed), 'missing', len(missing))
for m in missing[:20]:
    print('  MISSING', m)
sys.exit(1 if missing else 0)
