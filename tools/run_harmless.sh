#!/bin/sh
# applies each seeded_harmless/refactor<k>.diff in a scratch worktree and runs every claimed quick check on it
cd /verif
for k in "$@"; do
  WT=/tmp/wt/h$k
  git -C /repo worktree remove --force $WT 2>/dev/null
  git -C /repo worktree add -q --detach $WT HEAD
  (cd $WT && git apply /verif/seeded_harmless/refactor$k.diff) || echo "apply failed $k"
  res=""
  for c in $(python3 -c "import json; print(' '.join(c['property_id'] for c in json.load(open('MANIFEST.json'))['checks']))"); do
    VERIF_REPO=$WT VERIF_EVIDENCE_DIR=/tmp/wt/evidence_try ./check $c --tier quick > /tmp/hr_${k}_$c.out 2>&1; rc=$?
    if [ $rc -ne 0 ]; then res="$res $c=$rc"; fi
  done
  echo "refactor$k non-zero:$res"
  git -C /repo worktree remove --force $WT
done
