# pyvc.values -- symbolic value domain of the verifier (see DESIGN.md section 2.2)
#
# ints   -> z3 Int (mathematical, Python ints are unbounded)
# bools  -> z3 Bool
# bytes / bytearray / list-of-int with symbolic length -> SSeq: (n : Int expr, at : index expr -> element expr)
#           `at` is a Python closure that *builds* the element term, so concatenation and slicing need neither
#           quantifiers nor the array theory; base sequences are uninterpreted functions Int -> Int.
# enum members -> SEnum(cls, idx) with idx an index into list(cls)
# instances of repository classes -> SObj(cls, fields)
import itertools
import z3

_ctr = itertools.count()


def fresh_name(prefix):
    return '%s!%d' % (prefix, next(_ctr))


def fresh_int(prefix='v'):
    return z3.Int(fresh_name(prefix))


def fresh_bool(prefix='b'):
    return z3.Bool(fresh_name(prefix))


def reset_names():
    global _ctr
    _ctr = itertools.count()


class SInt(object):
    __slots__ = ('e',)

    def __init__(self, e):
        self.e = e if z3.is_expr(e) else z3.IntVal(int(e))

    def __repr__(self):
        return 'SInt(%s)' % self.e


class SBool(object):
    __slots__ = ('e',)

    def __init__(self, e):
        self.e = e

    def __repr__(self):
        return 'SBool(%s)' % self.e


class SRat(object):
    """result of int / int (true division) with at least one symbolic operand; only int() of it is supported"""
    __slots__ = ('num', 'den')

    def __init__(self, num, den):
        self.num, self.den = num, den


class SEnum(object):
    """symbolic member of a concrete Enum class: index into list(cls)"""
    __slots__ = ('cls', 'idx', 'code_hint')

    def __init__(self, cls, idx, code_hint=None):
        self.cls, self.idx = cls, idx
        self.code_hint = code_hint        # term known to equal value.code of the member (lemma coded-abstraction)

    def __repr__(self):
        return 'SEnum(%s,%s)' % (self.cls.__name__, self.idx)


class SEnumValue(object):
    """.value of a symbolic member of a CryptoData enum (an attrs params object chosen by idx)"""
    __slots__ = ('cls', 'idx', 'code_hint')

    def __init__(self, cls, idx, code_hint=None):
        self.cls, self.idx, self.code_hint = cls, idx, code_hint


class SObj(object):
    """instance of a repository (or exception) class with symbolic fields; identity = Python identity"""

    def __init__(self, cls, fields=None):
        self.cls = cls
        self.f = fields if fields is not None else {}

    def __repr__(self):
        return 'SObj(%s)' % self.cls.__name__


class SFlags(object):
    """a set of members of a concrete flag enum: one Bool per member"""

    def __init__(self, cls, bits):
        self.cls, self.bits = cls, bits          # bits: {member: z3 Bool}


class SDateTime(object):
    """datetime as an abstract instant: seconds since the epoch (Int), microseconds (Int), tz-aware or naive (utc);
    `off` is the UTC offset in seconds of an aware value (its wall-clock fields are those of secs + off); a naive value is
    read as UTC (off = 0)"""

    def __init__(self, secs, micros=None, aware=False, off=None):
        self.secs = secs
        self.micros = micros if micros is not None else z3.IntVal(0)
        self.aware = aware
        self.off = off if off is not None else z3.IntVal(0)


class SText(object):
    """text assembled from literal pieces and decimal renderings of symbolic non-negative integers (str(int), str.join):
    parts is a list of ('lit', str) | ('int', z3 Int term). Two such texts are equal iff their normalised part lists are
    (decimal renderings contain digits only and every literal between two integers is a non-digit separator)."""

    def __init__(self, parts):
        self.parts = list(parts)

    def normal(self):
        out = []
        for kind, v in self.parts:
            if kind == 'lit':
                if not v:
                    continue
                if out and out[-1][0] == 'lit':
                    out[-1] = ('lit', out[-1][1] + v)
                else:
                    out.append(('lit', v))
            else:
                out.append((kind, v))
        return out


class STimeDelta(object):
    def __init__(self, micros):
        self.micros = micros


class SAbs(object):
    """abstract object of an uninterpreted kind (an external value the proof does not look into), identified by a term"""

    def __init__(self, kind, term, py_type=None, attrs=None):
        self.kind, self.term, self.py_type = kind, term, py_type
        self.attrs = attrs or {}


def ite(c, a, b):
    if isinstance(c, bool):
        return a if c else b
    if z3.is_true(c):
        return a
    if z3.is_false(c):
        return b
    if a is b or (z3.is_expr(a) and z3.is_expr(b) and a.eq(b)):
        return a
    return z3.If(c, a, b)


def simp(e):
    return z3.simplify(e) if z3.is_expr(e) else e


def is_conc_int(e):
    return z3.is_int_value(e)


_IV = {}


def iv(x):
    """python int / z3 expr -> z3 Int expr"""
    if isinstance(x, z3.ExprRef):
        return x
    x = int(x)
    r = _IV.get(x)
    if r is None:
        r = z3.IntVal(x)
        if -4096 <= x <= 70000:
            _IV[x] = r
    return r


class SSeq(object):
    """sequence of ints with symbolic length. kind in {'bytes','bytearray','list','tuple'}.
    elem: 'int' (plain ints) or ('enum', cls) (indices into list(cls)) or ('abs', kind) (abstract objects)"""

    def __init__(self, n, at, kind='bytes', elem='int'):
        self.n = simp(iv(n))
        self._at = at
        self._memo = {}
        self.kind = kind
        self.elem = elem

    def at(self, i):
        if isinstance(i, int):
            c = self._memo.get(i)
            if c is None:
                c = self._memo[i] = self._at(iv(i))
            return c
        if z3.is_int_value(i):
            k = i.as_long()
            c = self._memo.get(k)
            if c is None:
                c = self._memo[k] = self._at(i)
            return c
        return self._at(i)

    def set(self, n, at):
        self.n, self._at = simp(iv(n)), at
        self._memo = {}

    def copy(self, kind=None):
        return SSeq(self.n, self._at, kind or self.kind, self.elem)

    def __repr__(self):
        return 'SSeq(%s,n=%s)' % (self.kind, self.n)


LAZY_BYTE_FACTS = False
_PENDING_FACTS = []          # range facts of byte-valued base sequences for index terms used since the last solver call


def take_pending_facts():
    out = list(_PENDING_FACTS)
    del _PENDING_FACTS[:]
    return out


def base_seq(prefix, kind='bytes', byte_valued=True):
    """fresh symbolic sequence; returns (seq, facts)"""
    f = z3.Function(fresh_name(prefix + '_a'), z3.IntSort(), z3.IntSort())
    n = fresh_int(prefix + '_n')
    facts = [n >= 0]
    if byte_valued and not LAZY_BYTE_FACTS:
        j = z3.Int('j!q')
        facts.append(z3.ForAll([j], z3.And(f(j) >= 0, f(j) < 256), patterns=[f(j)]))
    if byte_valued and LAZY_BYTE_FACTS:
        # 0 <= f(t) < 256 holds for every index term t: instead of a quantified axiom, the instance for each index
        # term that is actually built is handed to the solver (sound for any t, including bound-variable placeholders)
        seen = set()

        def at(i, f=f, seen=seen):
            t = f(iv(i))
            k = t.get_id()
            if k not in seen:
                seen.add(k)
                _PENDING_FACTS.append(z3.And(t >= 0, t < 256))
            return t
        return SSeq(n, at, kind), facts
    return SSeq(n, lambda i, f=f: f(iv(i)), kind), facts


def conc_seq(data, kind='bytes'):
    data = list(data)
    n = len(data)

    def at(i, data=data, n=n):
        i = simp(iv(i))
        if is_conc_int(i):
            k = i.as_long()
            return iv(data[k]) if 0 <= k < n else z3.IntVal(0)
        e = z3.IntVal(0)
        for k in range(n - 1, -1, -1):
            e = ite(i == k, iv(data[k]), e)
        return e
    return SSeq(n, at, kind)


def seq_of_terms(terms, kind='bytes'):
    return conc_seq(terms, kind)


def concat(x, y, kind=None):
    xn, yn = x.n, y.n
    if is_conc_int(xn) and xn.as_long() == 0:
        return SSeq(yn, y._at, kind or x.kind, y.elem)
    if is_conc_int(yn) and yn.as_long() == 0:
        return SSeq(xn, x._at, kind or x.kind, x.elem)

    def at(i, xat=x._at, yat=y._at, xn=xn):
        i = iv(i)
        c = simp(i < xn)
        if z3.is_true(c):
            return xat(i)
        if z3.is_false(c):
            return yat(simp(i - xn))
        return z3.If(c, xat(i), yat(simp(i - xn)))
    return SSeq(xn + yn, at, kind or x.kind, x.elem)


def clamp_index(v, n):
    """Python slice-bound normalisation: negative counts from the end, then clamp into [0, n]"""
    v = iv(v)
    return simp(z3.If(v < 0, z3.If(v + n < 0, z3.IntVal(0), v + n), z3.If(v > n, n, v)))


ENTAILS = None        # set by the engine: entails(formula) under the current path condition (cheap budget)


def _known(f):
    f = simp(f)
    if z3.is_true(f):
        return True
    if z3.is_false(f):
        return False
    if ENTAILS is None:
        return False
    return ENTAILS(f)


def slice_seq(x, lo, hi, kind=None):
    n = x.n
    # fast path: bounds already within range under the path condition -> no clamping terms (keeps formulas small)
    lo_e = iv(lo) if lo is not None else z3.IntVal(0)
    hi_e = iv(hi) if hi is not None else n
    if _known(z3.And(lo_e >= 0, lo_e <= hi_e, hi_e <= n)):
        lo_s = simp(lo_e)
        return SSeq(simp(hi_e - lo_e), lambda i, xat=x._at, lo=lo_s: xat(simp(iv(i) + lo)), kind or x.kind, x.elem)
    lo = clamp_index(lo, n) if lo is not None else z3.IntVal(0)
    hi = clamp_index(hi, n) if hi is not None else n
    ln = simp(z3.If(hi > lo, hi - lo, z3.IntVal(0)))
    return SSeq(ln, lambda i, xat=x._at, lo=lo: xat(simp(iv(i) + lo)), kind or x.kind, x.elem)


def repeat_seq(x, count):
    """x * count for a sequence of concrete length 1 (the only shape the code base uses) or general modulo form"""
    count = iv(count)
    xn = x.n
    total = simp(z3.If(count > 0, count * xn, z3.IntVal(0)))
    if is_conc_int(xn) and xn.as_long() == 1:
        return SSeq(total, lambda i, xat=x._at: xat(z3.IntVal(0)), x.kind, x.elem)
    return SSeq(total, lambda i, xat=x._at, xn=xn: xat(iv(i) % xn), x.kind, x.elem)


def seq_eq_goal(x, y, tag='eqi'):
    """goal-side equality of two sequences: lengths equal and, for a fresh (skolem) index, elements equal"""
    j = fresh_int(tag)
    return z3.And(x.n == y.n, z3.Implies(z3.And(j >= 0, j < x.n), x.at(j) == y.at(j)))


def seq_eq_assume(x, y):
    j = z3.Int('j!q')
    return z3.And(x.n == y.n, z3.ForAll([j], z3.Implies(z3.And(j >= 0, j < x.n), x.at(j) == y.at(j))))


def enum_table(cls, idx, f):
    """ite-table over list(cls): value of f(member) at symbolic index"""
    ms = list(cls)
    idx = simp(iv(idx))
    if is_conc_int(idx):
        return iv(f(ms[idx.as_long()]))
    e = iv(f(ms[-1]))
    for k in range(len(ms) - 2, -1, -1):
        e = ite(idx == k, iv(f(ms[k])), e)
    return e


def is_symbolic(x, _depth=0):
    if isinstance(x, (SInt, SBool, SSeq, SEnum, SEnumValue, SObj, SFlags, SRat, SDateTime, STimeDelta, SAbs, SStr,
                      SCoded, SCodedValue, SText)):
        return True
    if _depth > 4:
        return False
    if isinstance(x, (list, tuple, set, frozenset)):
        return any(is_symbolic(e, _depth + 1) for e in x)
    if isinstance(x, dict):
        return any(is_symbolic(e, _depth + 1) for e in x.values())
    return False


class SStr(object):
    """text whose encoded form (under `enc`, ascii unless stated) is the byte sequence `seq`"""

    def __init__(self, seq, enc='ascii'):
        self.seq, self.enc = seq, enc

    def __repr__(self):
        return 'SStr(n=%s)' % self.seq.n


class CodedSpec(object):
    """a wire code space: known codes decode to members of enum_cls (optionally wrapped), unknown ones to
    fallback_cls(code) (or are rejected when fallback_cls is None)"""

    def __init__(self, enum_cls, fallback_cls, width, wrap_known=None):
        self.enum_cls, self.fallback_cls, self.width, self.wrap_known = enum_cls, fallback_cls, width, wrap_known
        self.members = list(enum_cls)
        self.codes = [m.value.code for m in self.members]

    def known(self, code):
        return z3.Or(*[code == c for c in self.codes]) if self.codes else z3.BoolVal(False)

    def first_index(self, code):
        idx = z3.IntVal(-1)
        for k in range(len(self.codes) - 1, -1, -1):
            idx = z3.If(code == self.codes[k], z3.IntVal(k), idx)
        return idx

    def key(self):
        return (self.enum_cls, self.fallback_cls, self.width, self.wrap_known)


class SCoded(object):
    """abstract view of a vector item that is determined by its wire code (member if known, fallback object otherwise)"""

    def __init__(self, spec, code):
        self.spec, self.code = spec, code


class SCodedValue(object):
    def __init__(self, sc):
        self.sc = sc
