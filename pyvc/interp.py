# pyvc.interp -- call dispatch, attribute access, attrs construction for the AST interpreter
import ast
import builtins
import enum
import inspect
import textwrap
import types

import attr
import z3

from . import values as V
from . import engine as E
from . import ops
from .values import (SInt, SBool, SSeq, SStr, SEnum, SEnumValue, SObj, SFlags, SRat, SDateTime, STimeDelta, SAbs,
                     SCoded, SCodedValue)
from .ops import mk_exc, raise_

INTERPRET_PREFIXES = ('cryptoparser',)
INTERPRET_EXTRA = set()         # stdlib functions interpreted from source (total_ordering derivations, abc mixins)

MODELS = {}                     # python callable -> model
METHOD_MODELS = {}              # (kind, name) -> model(self, *args)
CONTRACTS = {}                  # function object -> spec callable(*args, **kw)
INLINE = set()                  # functions whose contract is *not* applied (they are being verified)
CALL_HOOKS = []                 # observers: f(fn, args, kw)


def model(*fs):
    def deco(g):
        for f in fs:
            MODELS[f] = g
        return g
    return deco


def method_model(kind, *names):
    def deco(g):
        for n in names:
            METHOD_MODELS[(kind, n)] = g
        return g
    return deco


class Decline(Exception):
    """raised by a specification function for arguments outside the contract's domain: the body is interpreted"""


class BoundMethod(object):
    def __init__(self, fn, obj):
        self.fn, self.obj = fn, obj


class MethodRef(object):
    """method of a symbolic builtin value (seq, str, int, flags, ...)"""

    def __init__(self, kind, name, obj):
        self.kind, self.name, self.obj = kind, name, obj


class Closure(object):
    """lambda / nested def evaluated by the interpreter"""

    def __init__(self, node, frame):
        self.node, self.frame = node, frame

    def __call__(self, *args, **kw):
        # a closure handed to native code (list.sort(key=...), filter, ...) is run by the interpreter
        from . import frame
        return frame.run_closure(self, list(args), kw)


class SuperProxy(object):
    def __init__(self, after, obj):
        self.after, self.obj = after, obj


_SRC = {}


def fn_ast(f):
    f = getattr(f, '__func__', f)
    if f not in _SRC:
        try:
            src = textwrap.dedent(inspect.getsource(f))
            node = ast.parse(src).body[0]
        except OSError:
            node = frozen_fn_ast(f)
        _SRC[f] = node
    return _SRC[f]


_FROZEN = {}


def frozen_fn_ast(f):
    """source of a function of a frozen stdlib module (_collections_abc): read from the stdlib .py file"""
    import os
    fname = f.__code__.co_filename
    if not (fname.startswith('<frozen ') and fname.endswith('>')):
        raise E.Unsupported('no source for %s' % f.__qualname__)
    mod = fname[len('<frozen '):-1]
    path = os.path.join(os.path.dirname(os.__file__), mod.replace('.', os.sep) + '.py')
    if path not in _FROZEN:
        _FROZEN[path] = ast.parse(open(path).read())
    for node in ast.walk(_FROZEN[path]):
        if isinstance(node, ast.FunctionDef) and node.name == f.__name__ and node.lineno == f.__code__.co_firstlineno:
            return node
    raise E.Unsupported('no source for %s' % f.__qualname__)


def is_attrs_generated(fn):
    code = getattr(fn, '__code__', None)
    return code is not None and code.co_filename.startswith('<attrs generated')


def interpretable(fn):
    if not isinstance(fn, types.FunctionType):
        return False
    if fn in INTERPRET_EXTRA:
        return True
    mod = fn.__module__ or ''
    if is_attrs_generated(fn):
        return False
    return mod.split('.')[0] in INTERPRET_PREFIXES


def deep_concrete(x):
    return not V.is_symbolic(x)


# ----------------------------------------------------------------------------------------------- type view
def py_type_of(v):
    if isinstance(v, SInt):
        return int
    if isinstance(v, SBool):
        return bool
    if isinstance(v, SSeq):
        return {'bytes': bytes, 'bytearray': bytearray, 'list': list, 'tuple': tuple}[v.kind]
    if isinstance(v, (SStr, V.SText)):
        return str
    if isinstance(v, (SEnum, SObj)):
        return v.cls
    if isinstance(v, SFlags):
        return set
    if isinstance(v, SDateTime):
        import datetime
        return datetime.datetime
    if isinstance(v, STimeDelta):
        import datetime
        return datetime.timedelta
    if isinstance(v, SAbs):
        return v.py_type or object
    if isinstance(v, SRat):
        return float
    if isinstance(v, SCoded):
        return object
    return type(v)


def materialize(sc):
    """concrete representative of a coded item: branches on whether the code is assigned"""
    P = E.cur()
    sp = sc.spec
    if P.branch(sp.known(sc.code)):
        idx = V.simp(sp.first_index(sc.code))
        m = sp.members[idx.as_long()] if z3.is_int_value(idx) else SEnum(sp.enum_cls, idx, code_hint=sc.code)
        return call(sp.wrap_known, [m], {}) if sp.wrap_known is not None else m
    if sp.fallback_cls is None:
        raise E.Unsupported('coded item with unknown code and no fallback class')
    return construct(sp.fallback_cls, [ops.wrap_int(sc.code)], {})


def isinstance_(o, t):
    if isinstance(o, SCoded):
        ts = t if isinstance(t, tuple) else (t,)
        sp = o.spec
        known_t = sp.enum_cls if sp.wrap_known is None else sp.wrap_known
        k_hit = any(isinstance(x, type) and isinstance(known_t, type) and issubclass(known_t, x) for x in ts)
        f_hit = any(isinstance(x, type) and sp.fallback_cls is not None and issubclass(sp.fallback_cls, x) for x in ts)
        if k_hit and f_hit:
            return True
        if not k_hit and not f_hit:
            return False
        kn = sp.known(o.code)
        return ops.wrap_bool(kn if k_hit else z3.Not(kn))
    ty = py_type_of(o)
    ts = t if isinstance(t, tuple) else (t,)
    return any(isinstance(x, type) and issubclass(ty, x) for x in ts)


# ----------------------------------------------------------------------------------------------- attribute access
def class_lookup(cls, name, after=None):
    mro = type.mro(cls)
    if after is not None:
        mro = mro[mro.index(after) + 1:]
    for k in mro:
        if name in k.__dict__:
            return k.__dict__[name], k
    raise AttributeError(name)


def bind_descriptor(d, obj, cls):
    if isinstance(d, property):
        return call(d.fget, [obj], {})
    if isinstance(d, classmethod):
        return types.MethodType(d.__func__, cls)
    if isinstance(d, staticmethod):
        return d.__func__
    if isinstance(d, types.FunctionType):
        return BoundMethod(d, obj)
    if hasattr(d, '__get__') and not isinstance(d, (int, str, bytes, tuple, list, dict, type(None))):
        if isinstance(obj, SObj):
            if type(d).__name__ in ('member_descriptor', 'getset_descriptor', 'wrapper_descriptor',
                                    'method_descriptor'):
                raise E.Unsupported('descriptor %r on symbolic object' % d)
            return d
        return d.__get__(obj, cls)
    return d


def getattr_(o, name):
    if isinstance(o, SObj):
        if name in o.f:
            return o.f[name]
        if name == '__class__':
            return o.cls
        if name == '__dict__':
            return o.f
        try:
            d, _ = class_lookup(o.cls, name)
        except AttributeError:
            if getattr(o, 'abstract', False):
                raise E.Unsupported('field %s of a nested %s object used through its class contract' % (name, o.cls.__name__))
            raise_(AttributeError, name)
        return bind_descriptor(d, o, o.cls)
    if isinstance(o, SuperProxy):
        if isinstance(o.obj, type):
            d, _ = class_lookup(o.obj, name, after=o.after)
            if isinstance(d, classmethod):
                return types.MethodType(d.__func__, o.obj)
            if isinstance(d, staticmethod):
                return d.__func__
            return d
        cls = py_type_of(o.obj)
        d, _ = class_lookup(cls, name, after=o.after)
        return bind_descriptor(d, o.obj, cls)
    if isinstance(o, SEnum):
        if name == 'value':
            if issubclass(o.cls, int):
                return ops.wrap_int(ops.as_int(o))
            return SEnumValue(o.cls, o.idx, getattr(o, 'code_hint', None))
        if name == 'name':
            return SAbs('enum_name', o.idx, str)
        if name == '__class__':
            return o.cls
        try:
            d, _ = class_lookup(o.cls, name)
        except AttributeError:
            # the member has no such attribute: a program AttributeError, exactly as for a concrete member
            ops.raise_(AttributeError, "'%s' object has no attribute '%s'" % (o.cls.__name__, name))
        return bind_descriptor(d, o, o.cls)
    if isinstance(o, SEnumValue):
        return enum_value_attr(o, name)
    if isinstance(o, SCoded):
        if name == 'value' and o.spec.wrap_known is None:
            return SCodedValue(o)
        return getattr_(materialize(o), name)
    if isinstance(o, SCodedValue):
        sc = o.sc
        if name == 'code':
            return ops.wrap_int(sc.code)
        if name == 'get_code_size':
            return lambda: sc.spec.width
        return getattr_(getattr_(materialize(sc), 'value'), name)
    if isinstance(o, SAbs) and name in o.attrs:
        return o.attrs[name]
    if isinstance(o, (SSeq, SStr, SInt, SBool, SFlags, SDateTime, STimeDelta, SAbs)):
        kind = {SSeq: 'seq', SStr: 'str', SInt: 'int', SBool: 'int', SFlags: 'flags', SDateTime: 'datetime',
                STimeDelta: 'timedelta', SAbs: 'abs'}[type(o)]
        if kind == 'datetime' and name == 'microsecond':
            return ops.wrap_int(o.micros)
        if (kind, name) in METHOD_MODELS:
            return MethodRef(kind, name, o)
        raise E.Unsupported('attribute %s of symbolic %s' % (name, kind))
    # real python objects
    if isinstance(o, (list, dict, set, bytearray)) and V.is_symbolic(o):
        return MethodRef('py' + type(o).__name__, name, o)
    try:
        return getattr(o, name)
    except AttributeError as e:
        raise E.PyRaise(mk_exc(AttributeError, *e.args))


def enum_value_attr(ev, name):
    if name == 'code' and getattr(ev, 'code_hint', None) is not None:
        return ops.wrap_int(ev.code_hint)
    ms = list(ev.cls)
    vals = []
    for m in ms:
        try:
            vals.append(getattr(m.value, name))
        except AttributeError:
            raise E.Unsupported('enum params attribute %s missing on %s' % (name, m))
    first = vals[0]
    if all(type(v) is type(first) and v == first for v in vals) and not callable(first):
        return first
    if all(isinstance(v, int) and not isinstance(v, bool) for v in vals):
        return ops.wrap_int(V.enum_table(ev.cls, ev.idx, lambda m: getattr(m.value, name)))
    if callable(first):
        return MethodRef('enumvalue', name, ev)
    if all(isinstance(v, str) for v in vals) and len(vals) <= 400 and not E.cur().pure:
        # text attribute (a wire name): case split over the members - lengths and offsets downstream stay concrete
        P = E.cur()
        for k in range(len(vals) - 1):
            if P.branch(ev.idx == k):
                return vals[k]
        return vals[-1]
    if all(isinstance(v, str) for v in vals) and all(v.isascii() for v in vals):
        return enum_str_value(ev.cls, ev.idx, vals)
    if all(isinstance(v, str) for v in vals):
        return SAbs(('enum_str', ev.cls, name), ev.idx, str)
    non_none = [v for v in vals if v is not None]
    if non_none and all(isinstance(v, enum.Enum) and type(v) is type(non_none[0]) for v in non_none):
        cls2 = type(non_none[0])
        ms2 = list(cls2)
        P = E.cur()
        if len(non_none) != len(vals):
            none_idx = [k for k, v in enumerate(vals) if v is None]
            if P.branch(z3.Or(*[ev.idx == k for k in none_idx])):
                return None
        pos = {m2: k for k, m2 in enumerate(ms2)}
        e = z3.IntVal(0)
        for k in range(len(vals) - 1, -1, -1):
            if vals[k] is not None:
                e = z3.If(ev.idx == k, z3.IntVal(pos[cls2(vals[k].value)] if vals[k] not in pos else pos[vals[k]]), e)
        e = V.simp(e)
        return ms2[e.as_long()] if z3.is_int_value(e) else SEnum(cls2, e)
    # heterogeneous attribute: case split over the groups of members that share one value
    groups = []
    for k, v in enumerate(vals):
        for g in groups:
            if g[0] is v or (type(g[0]) is type(v) and not callable(v) and g[0] == v):
                g[1].append(k)
                break
        else:
            groups.append((v, [k]))
    if len(groups) > 40:
        raise E.Unsupported('enum params attribute %s has %d distinct values' % (name, len(groups)))
    P = E.cur()
    for v, ks in groups[:-1]:
        if P.branch(z3.Or(*[ev.idx == k for k in ks])):
            return v
    return groups[-1][0]


def enum_str_value(cls, idx, vals):
    """string attribute of the params of a symbolic enum member, as symbolic ascii text (table over the members)"""
    raws = [v.encode('ascii') for v in vals]
    n = V.enum_table(cls, idx, lambda m, ms=list(cls): len(raws[ms.index(m)]))

    def at(i, raws=raws, idx=idx):
        i = V.iv(i)
        e = z3.IntVal(0)
        for k in range(len(raws) - 1, -1, -1):
            r = raws[k]
            if V.is_conc_int(V.simp(i)):
                c = V.simp(i).as_long()
                byte = z3.IntVal(r[c]) if 0 <= c < len(r) else z3.IntVal(0)
            else:
                byte = z3.IntVal(0)
                for p in range(len(r) - 1, -1, -1):
                    byte = z3.If(i == p, z3.IntVal(r[p]), byte)
            e = z3.If(idx == k, byte, e)
        return e
    return SStr(SSeq(n, at, 'bytes'), 'ascii')


_SHARED_IDS = None
SHARED_WRITE_HOOK = None      # set by the check that states the frame condition: hook(description) records the violation


def shared_container_ids():
    """ids of the mutable containers that live in class dictionaries and module globals of the repository: state that
    outlives a call and is shared by all objects (a parse, a compose or an observer has no business writing to it)"""
    global _SHARED_IDS
    if _SHARED_IDS is None:
        import sys
        ids = {}
        for mname, mod in list(sys.modules.items()):
            if not mname.startswith('cryptoparser') or mod is None:
                continue
            for gname, g in list(vars(mod).items()):
                if isinstance(g, (dict, list, set, bytearray)):
                    ids[id(g)] = '%s.%s' % (mname, gname)
                if isinstance(g, type) and getattr(g, '__module__', '') == mname:
                    for aname, a in list(vars(g).items()):
                        if isinstance(a, (dict, list, set, bytearray)):
                            ids[id(a)] = '%s.%s.%s' % (mname, g.__name__, aname)
        _SHARED_IDS = ids
    return _SHARED_IDS


def check_shared_write(o, what):
    """a store into class-level / module-level state of the repository: never executed natively (it would leak into
    the other paths); reported through the frame-condition hook when a check states one, unsupported otherwise"""
    desc = None
    if isinstance(o, (type, types.ModuleType)) and str(getattr(o, '__module__', getattr(o, '__name__', ''))).startswith('cryptoparser'):
        desc = '%s of %s' % (what, getattr(o, '__qualname__', getattr(o, '__name__', o)))
    elif isinstance(o, (dict, list, set, bytearray)) and id(o) in shared_container_ids():
        desc = '%s of %s' % (what, shared_container_ids()[id(o)])
    if desc is None:
        return
    if SHARED_WRITE_HOOK is not None:
        SHARED_WRITE_HOOK(desc)
        raise E.PathEnd()
    raise E.Unsupported('write to shared state: ' + desc)


def setattr_(o, name, v):
    check_shared_write(o, 'attribute store .%s' % name)
    if isinstance(o, SObj):
        d = None
        try:
            d, _ = class_lookup(o.cls, name)
        except AttributeError:
            pass
        if isinstance(d, property):
            if d.fset is None:
                raise_(AttributeError, name)
            return call(d.fset, [o, v], {})
        o.f[name] = v
        return None
    if V.is_symbolic(v) and not isinstance(o, (types.ModuleType, type)):
        raise E.Unsupported('symbolic attribute store on native %s' % type(o).__name__)
    setattr(o, name, v)
    return None


# ----------------------------------------------------------------------------------------------- objects
def lift_native(o):
    """field dict of a native attrs instance"""
    return {a.name: getattr(o, a.name) for a in attr.fields(type(o))}


def custom_dunder(cls, name):
    """user-defined (non attrs-generated, non-object) special method or None"""
    try:
        d, owner = class_lookup(cls, name)
    except AttributeError:
        return None
    if owner is object or not isinstance(d, types.FunctionType) or is_attrs_generated(d):
        return None
    return d


def obj_eq(l, r):
    lc, rc = py_type_of(l), py_type_of(r)
    for a, b, c in ((l, r, lc), (r, l, rc)):
        if isinstance(a, SObj) or attr.has(c):
            d = custom_dunder(c, '__eq__')
            if d is not None:
                res = call(d, [a, b], {})
                if res is NotImplemented:
                    continue
                return res
    if lc is not rc:
        return False
    if not attr.has(lc):
        return l is r
    lf = l.f if isinstance(l, SObj) else lift_native(l)
    rf = r.f if isinstance(r, SObj) else lift_native(r)
    acc = True
    for a in attr.fields(lc):
        if a.eq is False:
            continue
        if a.name not in lf or a.name not in rf:
            raise E.Unsupported('attrs eq: field %s missing' % a.name)
        acc = ops.and_values(acc, ops.eq_values(lf[a.name], rf[a.name]))
        if acc is False:
            return False
    return acc


def obj_order(op, l, r):
    name = {ast.Lt: '__lt__', ast.LtE: '__le__', ast.Gt: '__gt__', ast.GtE: '__ge__'}[op]
    refl = {ast.Lt: '__gt__', ast.LtE: '__ge__', ast.Gt: '__lt__', ast.GtE: '__le__'}[op]
    cls = py_type_of(l)
    try:
        d, _ = class_lookup(cls, name)
    except AttributeError:
        d = None
    if isinstance(d, types.FunctionType):
        res = call(d, [l, r], {})
        if res is not NotImplemented:
            return res
    cls = py_type_of(r)
    try:
        d, _ = class_lookup(cls, refl)
    except AttributeError:
        d = None
    if isinstance(d, types.FunctionType):
        res = call(d, [r, l], {})
        if res is not NotImplemented:
            return res
    raise_(TypeError, 'unorderable')


def obj_truth(o):
    for name in ('__bool__', '__len__'):
        try:
            d, owner = class_lookup(o.cls, name)
        except AttributeError:
            continue
        if isinstance(d, types.FunctionType):
            return ops.truth(call(d, [o], {}))
    return True


def obj_len(o):
    d, _ = class_lookup(py_type_of(o), '__len__')
    return call(d, [o], {})


# ----------------------------------------------------------------------------------------------- construction
def alias_of(a):
    return getattr(a, 'alias', None) or a.name.lstrip('_')


def run_validator(v, o, a, val):
    n = type(v).__name__
    if n == '_InstanceOfValidator':
        if not isinstance_(val, v.type):
            raise_(TypeError, "'%s' must be %r (got %s)" % (a.name, v.type, py_type_of(val).__name__))
    elif n == '_InValidator':
        opts = v.options
        if isinstance(val, SEnum):
            if not (isinstance(opts, type) and issubclass(val.cls, opts)):
                raise_(ValueError, a.name)
        else:
            if V.is_symbolic(val):
                c = ops.contains(opts, val)
                if not ops.truth(c):
                    raise_(ValueError, a.name)
            else:
                try:
                    ok = val in opts
                except TypeError:
                    ok = False
                if not ok:
                    raise_(ValueError, "'%s' must be in %r" % (a.name, opts))
    elif n == '_OptionalValidator':
        if val is not None:
            run_validator(v.validator, o, a, val)
    elif n == '_AndValidator':
        for x in v._validators:
            run_validator(x, o, a, val)
    elif n == '_DeepIterable':
        if v.iterable_validator is not None:
            run_validator(v.iterable_validator, o, a, val)
        if isinstance(val, SFlags):
            for m in val.bits:
                run_validator(v.member_validator, o, a, m)
        elif isinstance(val, SSeq):
            ok = seq_member_validator_ok(v.member_validator, val)
            if ok is not True:
                raise E.Unsupported('deep_iterable over symbolic sequence')
        else:
            for m in iterate_concrete(val):
                run_validator(v.member_validator, o, a, m)
    elif isinstance(v, types.FunctionType):
        call(v, [o, a, val], {})
    elif isinstance(v, (types.MethodType,)):
        call(v, [o, a, val], {})
    else:
        raise E.Unsupported('validator %s' % n)


def seq_member_validator_ok(mv, seq):
    n = type(mv).__name__
    if n == '_InValidator' and isinstance(seq.elem, tuple) and seq.elem[0] == 'enum':
        return isinstance(mv.options, type) and issubclass(seq.elem[1], mv.options)
    if n == '_InstanceOfValidator' and seq.elem == 'int':
        return issubclass(int, mv.type if not isinstance(mv.type, tuple) else mv.type[0])
    return False


def iterate_concrete(val):
    if isinstance(val, (list, tuple, set, frozenset)):
        return list(val)
    if isinstance(val, SSeq):
        if z3.is_int_value(val.n):
            return [seq_elem(val, z3.IntVal(k)) for k in range(val.n.as_long())]
        raise E.Unsupported('iteration over symbolic-length sequence without loop contract')
    if isinstance(val, (bytes, bytearray, str, dict, range)):
        return list(val)
    if hasattr(val, '__iter__') and not V.is_symbolic(val):
        return list(val)
    raise E.Unsupported('iterate %s' % type(val).__name__)


def seq_elem(seq, i):
    t = seq.at(i)
    if seq.elem == 'int':
        return ops.wrap_int(t)
    if seq.elem == 'byte1':
        return V.seq_of_terms([t], 'bytes')
    if isinstance(seq.elem, tuple) and seq.elem[0] == 'enum':
        ts = V.simp(t)
        if z3.is_int_value(ts):
            return list(seq.elem[1])[ts.as_long()]
        return SEnum(seq.elem[1], ts)
    if isinstance(seq.elem, tuple) and seq.elem[0] == 'wrap':
        return seq.elem[1](t)
    if isinstance(seq.elem, tuple) and seq.elem[0] == 'coded':
        return SCoded(seq.elem[1], V.simp(t))
    if seq.elem == 'opaque':
        return SAbs('opaque_item', t)                  # an item of a havocked list: nothing is known about it
    raise E.Unsupported('element kind %r' % (seq.elem,))


def validate_obj(o):
    for a in attr.fields(o.cls):
        if a.validator is not None:
            run_validator(a.validator, o, a, o.f[a.name])


def attrs_init(cls, o, args, kw):
    """semantics of the attrs-generated __init__ of cls applied to the (possibly partially built) SObj o"""
    fields = attr.fields(cls)
    it = iter(args)
    kw = dict(kw)
    given = []
    for a in fields:
        if a.init:
            al = alias_of(a)
            if al in kw:
                v = kw.pop(al)
            else:
                try:
                    v = next(it)
                except StopIteration:
                    d = a.default
                    if d is attr.NOTHING:
                        raise_(TypeError, 'missing argument %s' % al)
                    if isinstance(d, attr.Factory):
                        v = call(d.factory, [o] if d.takes_self else [], {})
                    else:
                        v = d
            if a.converter is not None:
                v = call(a.converter, [v], {})
            o.f[a.name] = v
            given.append(a)
        else:
            d = a.default
            if d is attr.NOTHING:
                continue
            if isinstance(d, attr.Factory):
                o.f[a.name] = call(d.factory, [o] if d.takes_self else [], {})
            else:
                o.f[a.name] = d
    rest = list(it)
    if rest or kw:
        raise_(TypeError, 'unexpected arguments %r %r' % (len(rest), sorted(kw)))
    for a in given:
        if a.validator is not None:
            run_validator(a.validator, o, a, o.f[a.name])
    if hasattr(cls, '__attrs_post_init__'):
        call(getattr_(o, '__attrs_post_init__'), [], {})


def construct(cls, args, kw):
    if issubclass(cls, enum.Enum):
        return enum_lookup(cls, args, kw)
    if cls in MODELS:
        return MODELS[cls](*args, **kw)
    if issubclass(cls, BaseException):
        return construct_exception(cls, args, kw)
    init = cls.__dict__.get('__init__') or class_lookup(cls, '__init__')[0]
    if attr.has(cls) or (isinstance(init, types.FunctionType) and interpretable(init)):
        if deep_concrete(args) and deep_concrete(kw) and not FORCE_SYMBOLIC_CONSTRUCT:
            return native(cls, args, kw)
        o = SObj(cls)
        if isinstance(init, types.FunctionType) and not is_attrs_generated(init):
            call(init, [o] + list(args), kw)
        elif attr.has(cls):
            attrs_init(cls, o, args, kw)
        else:
            raise E.Unsupported('constructor of %s' % cls.__name__)
        return o
    if deep_concrete(args) and deep_concrete(kw):
        return native(cls, args, kw)
    raise E.Unsupported('constructor of %s with symbolic arguments' % cls.__name__)


FORCE_SYMBOLIC_CONSTRUCT = False


def construct_exception(cls, args, kw):
    o = mk_exc(cls, *args)
    if attr.has(cls):
        init = class_lookup(cls, '__init__')[0]
        if isinstance(init, types.FunctionType) and not is_attrs_generated(init):
            # custom __init__ (cryptodatahub InvalidValue(value, type_class, class_member=None)): keep .value
            names = list(inspect.signature(init).parameters)[1:]
            bound = dict(zip(names, args))
            bound.update(kw)
            for a in attr.fields(cls):
                o.f[a.name] = bound.get(a.name)
        else:
            names = [alias_of(a) for a in attr.fields(cls) if a.init]
            bound = dict(zip(names, args))
            bound.update(kw)
            for a in attr.fields(cls):
                o.f[a.name] = bound.get(alias_of(a), None if a.default is attr.NOTHING else a.default)
    else:
        o.f.update(kw)
    return o


def enum_lookup(cls, args, kw):
    (v,) = args
    if isinstance(v, SEnum):
        if v.cls is cls:
            return v
        if issubclass(v.cls, int):
            v = ops.wrap_int(ops.as_int(v))
        else:
            raise_(ValueError, 'not a valid %s' % cls.__name__)
    if isinstance(v, (SInt, SBool)):
        ms = list(cls)
        if not all(isinstance(m.value, int) for m in ms):
            raise_(ValueError, 'not a valid %s' % cls.__name__)
        ve = ops.as_int(v)
        idx = z3.IntVal(-1)
        for k in range(len(ms) - 1, -1, -1):
            idx = z3.If(ve == int(ms[k].value), z3.IntVal(k), idx)
        if E.cur().branch(z3.Or(*[ve == int(m.value) for m in ms])):
            return SEnum(cls, V.simp(idx))
        raise_(ValueError, 'not a valid %s' % cls.__name__)
    if V.is_symbolic(v):
        raise E.Unsupported('Enum(%s)' % type(v).__name__)
    return native(cls, args, kw)


# ----------------------------------------------------------------------------------------------- calls
def lift_result(r):
    """a ComposerBinary/ParserBinary created by natively executed repository code is continued symbolically"""
    from cryptoparser.common.parse import ComposerBase, ParserBase
    if isinstance(r, (ComposerBase, ParserBase)):
        return SObj(type(r), dict(vars(r)))
    return r


def native(f, args, kw):
    try:
        return lift_result(f(*args, **kw))
    except E.PyRaise:
        raise
    except (E.Unsupported, E.PathEnd, E.Infeasible):
        raise
    except RecursionError:
        raise
    except Exception as e:
        raise E.PyRaise(lift_exception(e))


def lift_exception(e):
    o = mk_exc(type(e), *e.args)
    if attr.has(type(e)):
        for a in attr.fields(type(e)):
            o.f[a.name] = getattr(e, a.name, None)
    o.f['__native__'] = e
    return o


def call(f, args, kw):
    args = list(args)
    for h in CALL_HOOKS:
        h(f, args, kw)
    try:
        m = MODELS.get(f)
    except TypeError:
        m = None
    if m is not None:
        return m(*args, **kw)
    if isinstance(f, MethodRef):
        return METHOD_MODELS[(f.kind, f.name)](f.obj, *args, **kw)
    if isinstance(f, BoundMethod):
        return call_function(f.fn, [f.obj] + args, kw)
    if isinstance(f, Closure):
        from . import frame
        return frame.run_closure(f, args, kw)
    if isinstance(f, types.MethodType):
        return call_function(f.__func__, [f.__self__] + args, kw)
    if f in (dict, list, tuple) and f not in MODELS:
        return native(f, args, kw)
    if isinstance(f, type):
        return construct(f, args, kw)
    if isinstance(f, types.FunctionType):
        return call_function(f, args, kw)
    if isinstance(f, SObj):
        d, _ = class_lookup(f.cls, '__call__')
        return call_function(d, [f] + args, kw)
    if deep_concrete(args) and deep_concrete(kw):
        return native(f, args, kw)
    bself = getattr(f, '__self__', None)
    if isinstance(bself, dict) and getattr(f, '__name__', '') == 'get' and args and V.is_symbolic(args[0]) \
            and not V.is_symbolic(list(bself.keys())):
        for key in list(bself.keys()):
            c = ops.eq_values(args[0], key)
            if c is True or (c is not False and ops.truth(c)):
                return bself[key]
        return args[1] if len(args) > 1 else None
    if isinstance(bself, (bytes, bytearray)) and ('seq', getattr(f, '__name__', '')) in METHOD_MODELS:
        return METHOD_MODELS[('seq', f.__name__)](ops.as_seq(bself), *args, **kw)
    if isinstance(bself, str) and ('str', getattr(f, '__name__', '')) in METHOD_MODELS:
        return METHOD_MODELS[('str', f.__name__)](SStr(V.conc_seq(bself.encode('utf-8')), 'ascii' if bself.isascii() else 'utf-8'), *args, **kw)
    if bself is not None and isinstance(bself, (list, dict, set)) and getattr(f, '__name__', '') in SAFE_CONTAINER_METHODS:
        if f.__name__ not in ('items', 'keys', 'values', 'copy'):
            check_shared_write(bself, 'call of .%s()' % f.__name__)
        return native(f, args, kw)
    raise E.Unsupported('call of %r with symbolic arguments' % (getattr(f, '__qualname__', None) or f,))


SAFE_CONTAINER_METHODS = {'append', 'insert', 'extend', 'items', 'keys', 'values', 'update', 'copy', 'reverse',
                          'clear', 'setdefault', 'add'}


ABSTRACT_COMPOSE = None     # set by contracts.nested: compose() of an object known only through its class contract


def call_function(fn, args, kw):
    if ABSTRACT_COMPOSE is not None and fn.__name__ == 'compose' and args and isinstance(args[0], SObj) \
            and getattr(args[0], 'abstract', False):
        return ABSTRACT_COMPOSE(args[0])
    if is_attrs_generated(fn) and fn.__name__ == '__init__' and args and isinstance(args[0], SObj):
        for k in type.mro(args[0].cls):
            if k.__dict__.get('__init__') is fn:
                return attrs_init(k, args[0], args[1:], kw)
        raise E.Unsupported('attrs __init__ owner not found')
    spec = CONTRACTS.get(fn)
    if spec is not None and fn not in INLINE:
        try:
            return spec(*args, **kw)
        except Decline:
            pass
    m = MODELS.get(fn)
    if m is not None:
        return m(*args, **kw)
    if interpretable(fn):
        if deep_concrete(args) and deep_concrete(kw) and native_ok(fn, args):
            return native(fn, args, kw)
        from . import frame
        return frame.run_function(fn, args, kw)
    if deep_concrete(args) and deep_concrete(kw):
        return native(fn, args, kw)
    raise E.Unsupported('call of %s.%s with symbolic arguments' % (fn.__module__, fn.__qualname__))


NATIVE_DENY = set()      # functions never run natively (their effects are what is being verified)


def native_ok(fn, args):
    return fn not in NATIVE_DENY and fn not in INLINE
