# pyvc.specfun -- ghost specification functions (uninterpreted symbols + the facts that define them)
import z3

from . import engine as E
from . import values as V

_pow2 = z3.Function('pow2', z3.IntSort(), z3.IntSort())
_seq_eq_ctr = [0]


def pow2(n):
    """2**n for n >= 0; definitional facts are instantiated at the point of use"""
    P = E.cur()
    n = V.simp(n)
    if z3.is_int_value(n):
        return z3.IntVal(2 ** n.as_long())
    t = _pow2(n)
    P.assume(t >= 1)
    # unfold a few ground instances that the code base needs (byte/word granularity)
    P.assume(z3.Implies(n == 0, t == 1))
    return t


def pow2_term(n):
    return _pow2(n)


def bitor(a, b):
    raise E.Unsupported('symbolic | symbolic')


def seq_equal_pred(l, r):
    """== of two sequences both of symbolic length inside program code: a fresh Bool b with
    b => (lengths equal and all elements equal)  and  not b => (lengths differ or some witness index differs)"""
    P = E.cur()
    b = V.fresh_bool('seqeq')
    j = z3.Int('j!q')
    w = V.fresh_int('neqw')
    P.assume(z3.Implies(b, z3.And(l.n == r.n, z3.ForAll([j], z3.Implies(z3.And(j >= 0, j < l.n), l.at(j) == r.at(j))))))
    P.assume(z3.Implies(z3.Not(b), z3.Or(l.n != r.n, z3.And(w >= 0, w < l.n, l.at(w) != r.at(w)))))
    return b
