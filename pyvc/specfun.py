# pyvc.specfun -- ghost specification functions (uninterpreted symbols + the facts that define them)
import z3

from . import engine as E
from . import values as V

_pow2 = z3.Function('pow2', z3.IntSort(), z3.IntSort())
_seq_eq_ctr = [0]


def pow2(n):
    """2**n for n >= 0; definitional facts are instantiated at the point of use"""
    P = E.cur()
    n = V.simp(n)
    if z3.is_int_value(n):
        return z3.IntVal(2 ** n.as_long())
    t = _pow2(n)
    P.assume(t >= 1)
    # unfold a few ground instances that the code base needs (byte/word granularity)
    P.assume(z3.Implies(n == 0, t == 1))
    return t


def pow2_term(n):
    return _pow2(n)


def _width(P, x, limit=32):
    """smallest w in 8, 16, 24, 32 with 0 <= x < 2**w entailed by the path, or None"""
    if not P.entails(x >= 0):
        return None
    for w in range(8, limit + 1, 8):
        if P.entails(x < 2 ** w):
            return w
    return None


def bitor(a, b):
    """a | b for symbolic integers: a + b when the operands are provably bit-disjoint (x << k | y with y < 2**k),
    otherwise bit by bit when both are provably non-negative and below 2**32"""
    P = E.cur()
    for x, y in ((a, b), (b, a)):
        w = _width(P, y)
        if w is not None and P.entails(x % (2 ** w) == 0):
            return x + y
    wa, wb = _width(P, a), _width(P, b)
    if wa is None or wb is None:
        raise E.Unsupported('symbolic | symbolic')
    bit = lambda x, k: (x / (2 ** k)) % 2
    return z3.Sum([z3.If(z3.Or(bit(a, k) == 1, bit(b, k) == 1), 2 ** k, 0) for k in range(max(wa, wb))])


def bitand(a, b):
    P = E.cur()
    wa, wb = _width(P, a), _width(P, b)
    if wa is None or wb is None:
        raise E.Unsupported('symbolic & symbolic')
    bit = lambda x, k: (x / (2 ** k)) % 2
    return z3.Sum([z3.If(z3.And(bit(a, k) == 1, bit(b, k) == 1), 2 ** k, 0) for k in range(min(wa, wb))])


def seq_equal_pred(l, r):
    """== of two sequences both of symbolic length inside program code: a fresh Bool b with
    b => (lengths equal and all elements equal)  and  not b => (lengths differ or some witness index differs)"""
    P = E.cur()
    b = V.fresh_bool('seqeq')
    j = z3.Int('j!q')
    w = V.fresh_int('neqw')
    P.assume(z3.Implies(b, z3.And(l.n == r.n, z3.ForAll([j], z3.Implies(z3.And(j >= 0, j < l.n), l.at(j) == r.at(j))))))
    P.assume(z3.Implies(z3.Not(b), z3.Or(l.n != r.n, z3.And(w >= 0, w < l.n, l.at(w) != r.at(w)))))
    return b
