# pyvc.gen -- type-directed construction of a *symbolic valid object* of a repository class (exploration E2).
# The domain Valid_C is derived, not written: field sorts come from the attrs validators/converters of the live
# class, the object is built by the real constructor (converters, validators, __attrs_post_init__ are interpreted),
# and a path on which the constructor or compose() raises lies outside Valid_C.
import datetime
import enum
import inspect

import attr
import six
import z3

from . import values as V
from . import engine as E
from . import interp as I
from . import ops
from .values import SInt, SBool, SSeq, SStr, SEnum, SObj, SFlags, SDateTime, SAbs

HINTS = {}            # (class name, field name) -> sort
MAX_ITEMS = 1         # variable-size vector items explored in E2 (bounded stand-in, reported)
LIST_ITEMS = {'packet_id_array': 2}     # plain list fields explored with more items (order-sensitive layouts)
MAX_DEPTH = 4


class NoSort(Exception):
    pass


def sort_of_type(t):
    from cryptoparser.common.base import ArrayBase
    if isinstance(t, tuple):
        for x in t:
            try:
                return sort_of_type(x)
            except NoSort:
                continue
        raise NoSort(repr(t))
    if t is bool:
        return ('bool',)
    if t in six.integer_types or t is int:
        return ('int',)
    if t in (bytes, bytearray):
        return ('bytes', 'bytes' if t is bytes else 'bytearray')
    if t in six.string_types or t is str:
        return ('str',)
    if t is datetime.datetime:
        return ('datetime',)
    if isinstance(t, type) and issubclass(t, enum.Enum):
        return ('enum', t)
    if isinstance(t, type) and issubclass(t, ArrayBase):
        return ('obj', t)              # an already constructed vector object is required (no converter)
    if isinstance(t, type) and t.__module__.startswith('cryptoparser'):
        return ('obj', t)
    if isinstance(t, type) and t.__module__.startswith('cryptodatahub'):
        return ('external', t)
    raise NoSort(repr(t))


def sort_of_validator(v):
    n = type(v).__name__
    if n == '_InstanceOfValidator':
        return sort_of_type(v.type)
    if n == '_InValidator':
        if isinstance(v.options, type) and issubclass(v.options, enum.Enum):
            return ('enum', v.options)
        raise NoSort('in_(%r)' % (v.options,))
    if n == '_OptionalValidator':
        return ('optional', sort_of_validator(v.validator))
    if n == '_AndValidator':
        for x in v._validators:
            try:
                return sort_of_validator(x)
            except NoSort:
                continue
        raise NoSort('and_')
    if n == '_DeepIterable':
        m = sort_of_validator(v.member_validator)
        if m[0] == 'enum':
            return ('enumlist', m[1])        # an ordered list of members; flag-set fields are declared by a hint
        return ('list', m)
    raise NoSort(n)


def field_sort(cls, a):
    from cryptoparser.common.base import ArrayBase
    key = (cls.__name__, a.name)
    for k in type.mro(cls):
        if (k.__name__, a.name) in HINTS:
            h = HINTS[(k.__name__, a.name)]
            return h(cls) if callable(h) else h
    if a.converter is not None:
        c = a.converter
        if isinstance(c, type) and issubclass(c, ArrayBase):
            return ('vector', c)
        if isinstance(c, type) and issubclass(c, enum.Enum):
            return ('enum', c)
    if a.validator is not None:
        try:
            return sort_of_validator(a.validator)
        except NoSort:
            pass
    raise NoSort('%s.%s has no validator/converter that fixes its sort (add a hint)' % key)


def fresh_bytes(P, name, kind='bytes'):
    s, facts = V.base_seq(name, kind)
    for f in facts:
        P.assume(f)
    return s


def make(P, sort, name, depth):
    k = sort[0]
    if k == 'int':
        return SInt(V.fresh_int(name))
    if k == 'bool':
        return SBool(V.fresh_bool(name))
    if k == 'bytes':
        return fresh_bytes(P, name, sort[1])
    if k == 'str':
        s = fresh_bytes(P, name, 'bytes')
        j = z3.Int('j!q')
        P.assume(z3.ForAll([j], z3.Implies(z3.And(j >= 0, j < s.n), s.at(j) < 128)))
        return SStr(s, 'ascii')
    if k == 'enum':
        ms = list(sort[1])
        idx = V.fresh_int(name)
        P.assume(z3.And(idx >= 0, idx < len(ms)))
        return SEnum(sort[1], idx)
    if k == 'datetime':
        secs = V.fresh_int(name)
        aware = sort[1] if len(sort) > 1 else P.choose('%s is timezone aware' % name)
        off = None
        if aware:
            # an aware value in any time zone: UTC offset strictly between -24 h and +24 h (what tzinfo allows)
            off = V.fresh_int(name + '_utcoffset')
            P.assume(z3.And(off > -86400, off < 86400))
        return SDateTime(secs, z3.IntVal(0), aware=aware, off=off)
    if k == 'optional':
        if P.choose('%s is None' % name):
            return None
        return make(P, sort[1], name, depth)
    if k == 'flags':
        ms = list(sort[1])
        return SFlags(sort[1], {m: V.fresh_bool('%s_%s' % (name, m.name)) for m in ms})
    if k == 'enumlist':
        ms = list(sort[1])
        s, facts = V.base_seq(name, 'list', byte_valued=False)
        for f in facts:
            P.assume(f)
        j = z3.Int('j!q')
        P.assume(z3.ForAll([j], z3.And(s.at(j) >= 0, s.at(j) < len(ms))))
        s.elem = ('enum', sort[1])
        return s
    if k == 'list':
        out = []
        for i in range(LIST_ITEMS.get(name.split('_', 1)[-1], MAX_ITEMS)):
            if P.choose('%s has item %d' % (name, i)):
                out.append(make(P, sort[1], '%s_%d' % (name, i), depth + 1))
            else:
                break
        note_bounded('list field %s explored with at most %d items' % (name, LIST_ITEMS.get(name.split('_', 1)[-1], MAX_ITEMS)))
        return out
    if k == 'vector':
        return make_vector_items(P, sort[1], name, depth)
    if k == 'obj':
        return sym_object(P, sort[1], name, depth + 1)
    if k == 'const':
        return sort[1]
    if k == 'oneof':
        return make_one_of(P, list(sort[1]), name, depth + 1)
    if k == 'external':
        return SAbs('external:%s' % sort[1].__name__, V.fresh_int(name), sort[1])
    raise E.Unsupported('sort %r' % (sort,))


BOUNDED_NOTES = set()


def note_bounded(msg):
    BOUNDED_NOTES.add(msg)


def make_vector_items(P, vcls, name, depth):
    """the *items* argument for constructing vector class vcls (the constructor/converter builds the vector)"""
    from cryptoparser.common import base as RB
    from contracts.common_parse import coded_kind
    from cryptoparser.common.utils import get_leaf_classes
    param = vcls.get_param()
    if isinstance(param, (RB.VectorParamNumeric, RB.OpaqueParam)):
        ncls = getattr(param, 'numeric_class', int)
        s, facts = V.base_seq(name, 'list', byte_valued=False)
        for f in facts:
            P.assume(f)
        if isinstance(ncls, type) and issubclass(ncls, enum.Enum):
            j = z3.Int('j!q')
            P.assume(z3.ForAll([j], z3.And(s.at(j) >= 0, s.at(j) < len(list(ncls)))))
            s.elem = ('enum', ncls)
        return s
    ic = getattr(param, 'item_class', None)
    fb = getattr(param, 'fallback_class', None)
    sp = None
    if isinstance(ic, type):
        for classes in ([ic], get_leaf_classes(ic) if not inspect.isabstract(ic) or True else [ic]):
            try:
                sp = coded_kind(list(classes), fb)
            except Exception:
                sp = None
            if sp is not None:
                break
    if sp is not None:
        s, facts = V.base_seq(name, 'list', byte_valued=False)
        for f in facts:
            P.assume(f)
        j = z3.Int('j!q')
        w = sp.width
        dom = z3.And(s.at(j) >= 0, s.at(j) < 256 ** w)
        if sp.fallback_cls is None:
            dom = sp.known(s.at(j))
        P.assume(z3.ForAll([j], dom))
        if sp.fallback_cls is None and sp.wrap_known is None:
            # plain enum vector: elements are members (indices)
            t, facts = V.base_seq(name + '_idx', 'list', byte_valued=False)
            for f in facts:
                P.assume(f)
            P.assume(z3.ForAll([j], z3.And(t.at(j) >= 0, t.at(j) < len(sp.members))))
            t.elem = ('enum', sp.enum_cls)
            return t
        s.elem = ('coded', sp)
        return s
    # variable-size items: bounded number of symbolic items
    out = []
    for i in range(MAX_ITEMS):
        if P.choose('%s has item %d' % (name, i)):
            out.append(make_item(P, param, '%s_%d' % (name, i), depth + 1))
        else:
            break
    note_bounded('vector %s (%s) explored with at most %d items' % (vcls.__name__, type(param).__name__, MAX_ITEMS))
    return out


def make_item(P, param, name, depth):
    from cryptoparser.common import base as RB
    from cryptoparser.common.utils import get_leaf_classes
    ic = param.item_class
    if isinstance(param, RB.VectorParamString):
        if isinstance(ic, type) and issubclass(ic, enum.Enum):
            return make(P, ('enum', ic), name, depth)
        raise E.Unsupported('string vector item %r' % (ic,))
    if isinstance(param, RB.VectorParamEnumCodeString):
        return make(P, ('enum', ic.get_enum_class()), name, depth)
    if isinstance(ic, type) and issubclass(ic, RB.VariantParsableBase):
        types = [t for t in ic._get_variant_types()]
        return make_one_of(P, types, name, depth)
    if isinstance(ic, type):
        leaves = get_leaf_classes(ic) or [ic]
        return make_one_of(P, leaves, name, depth)
    raise E.Unsupported('vector item class %r' % (ic,))


def make_one_of(P, classes, name, depth):
    from cryptoparser.common import base as RB
    classes = [c for c in classes]
    for c in classes[:-1]:
        if P.choose('%s is %s' % (name, c.__name__)):
            return instance_of(P, c, name, depth)
    return instance_of(P, classes[-1], name, depth)


def instance_of(P, c, name, depth):
    from cryptoparser.common import base as RB
    if isinstance(c, type) and issubclass(c, RB.NByteEnumParsable):
        return make(P, ('enum', c.get_enum_class()), name, depth)
    if isinstance(c, type) and issubclass(c, enum.Enum):
        return make(P, ('enum', c), name, depth)
    return sym_object(P, c, name, depth)


def sym_object(P, cls, name='o', depth=0):
    """a symbolic instance of cls built by its real constructor from symbolic arguments"""
    from cryptoparser.common.base import ArrayBase
    if depth > MAX_DEPTH:
        raise E.Unsupported('object nesting deeper than %d' % MAX_DEPTH)
    if issubclass(cls, enum.Enum):
        return make(P, ('enum', cls), name, depth)
    if issubclass(cls, ArrayBase):
        items = make_vector_items(P, cls, name + '_items', depth)
        return I.construct(cls, [items], {})
    from cryptoparser.common.base import VariantParsableBase
    if issubclass(cls, VariantParsableBase):
        types = list(cls._get_variant_types())
        inner = make_one_of(P, types, name + '_variant', depth + 1)
        return I.construct(cls, [inner], {})
    if not attr.has(cls) and not any((k.__name__, p) in HINTS for k in type.mro(cls)
                                     for p in list(inspect.signature(cls.__init__).parameters)[1:]):
        raise E.Unsupported('%s is not an attrs class (constructor signature needs a hint)' % cls.__name__)
    init = cls.__dict__.get('__init__') or I.class_lookup(cls, '__init__')[0]
    kwargs = {}
    if attr.has(cls) and I.is_attrs_generated(init):
        for a in attr.fields(cls):
            if not a.init:
                continue
            sort = field_sort(cls, a)
            kwargs[I.alias_of(a)] = make(P, sort, '%s_%s' % (name, a.name.lstrip('_')), depth)
    else:
        sig = inspect.signature(init)
        for pname in list(sig.parameters)[1:]:
            key = None
            for k in type.mro(cls):
                if (k.__name__, pname) in HINTS:
                    key = (k.__name__, pname)
                    break
            if key is None:
                raise NoSort('%s.__init__(%s) needs a hint' % (cls.__name__, pname))
            kwargs[pname] = make(P, HINTS[key], '%s_%s' % (name, pname), depth)
    return I.construct(cls, [], kwargs)


_orig_sym_object = sym_object


def sym_object(P, cls, name='o', depth=0):      # noqa: F811
    try:
        return _orig_sym_object(P, cls, name, depth)
    except NoSort as e:
        raise E.Unsupported('no sort for a constructor argument: %s' % e)
