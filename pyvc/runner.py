# pyvc.runner -- runs the verification units of one property, replays counterexamples natively, applies the
# known-findings file, writes the evidence file and decides the exit code:
#   0 all obligations discharged     1 VIOLATION (replayed input, or no-failing-input-found)
#   2 undecided (solver unknown / unsupported construct)      3 checker error (vacuity, crash, cross-check mismatch)
import importlib
import json
import multiprocessing
import os
import sys
import time
import traceback

HERE = os.path.dirname(os.path.dirname(os.path.abspath(__file__)))


class Unit(object):
    """one verification unit: `run()` explores and returns a vc.UnitResult (executed in a worker process)"""

    def __init__(self, name, run, level='property', replay=None, search=None, functions=(), clause=None,
                 finding=None, backend='z3', expect_fail=False):
        self.name, self.run, self.level = name, run, level
        self.replay, self.search = replay, search
        self.functions = list(functions)
        self.clause = clause
        self.finding = finding          # id of a known finding whose region this unit excludes
        self.backend = backend
        self.expect_fail = expect_fail  # canary: this unit MUST fail (vacuity guard)


_UNITS = []


class _Budget(BaseException):
    pass


def _alarm(*a):
    raise _Budget()


UNIT_WALL_BUDGET = int(os.environ.get('VERIF_UNIT_BUDGET', '0') or 0)
# default safety budgets per unit (wall clock): an exploration that does not end - a path explosion after a change of the
# code - is reported as undecided instead of hanging the check; the slowest unit on the pinned tree needs about a fifth of it
DEFAULT_UNIT_BUDGET = {'quick': 400, 'thorough': 1500}


def _worker(i):
    import signal
    u = _UNITS[i]
    t0 = time.time()
    budget = getattr(u, 'budget', None) or UNIT_WALL_BUDGET or DEFAULT_UNIT_BUDGET.get(os.environ.get('VERIF_ACTIVE_TIER', 'quick'), 400)
    if budget:
        signal.signal(signal.SIGALRM, _alarm)
        signal.setitimer(signal.ITIMER_REAL, budget, 5)
    try:
        res = u.run()
    except _Budget:
        from . import vc
        res = vc.UnitResult(u.name)
        res.unsupported = ['exploration exceeded the wall-clock safety budget of %d s (undecided)' % budget]
        res.obligations = [dict(name='exploration budget', kind='budget', status='unknown', detail=None, where=None, seconds=budget)]
    except BaseException:
        from . import vc
        res = vc.UnitResult(u.name)
        res.error = traceback.format_exc()
    finally:
        if budget:
            signal.setitimer(signal.ITIMER_REAL, 0)
    res.name = u.name
    res.seconds = time.time() - t0
    return i, res


def run_units(units, jobs=None):
    global _UNITS
    _UNITS = units
    jobs = jobs or min(16, os.cpu_count() or 4, max(1, len(units)))
    results = [None] * len(units)
    if jobs <= 1 or len(units) <= 1:
        for i in range(len(units)):
            results[i] = _worker(i)[1]
        return results
    ctx = multiprocessing.get_context('fork')
    with ctx.Pool(jobs, maxtasksperchild=1) as pool:      # a fresh process per unit: verdicts do not depend on which units ran before in the worker
        done = 0
        for i, res in pool.imap_unordered(_worker, range(len(units)), chunksize=1):
            results[i] = res
            done += 1
            if os.environ.get('VERIF_PROGRESS'):
                sys.stderr.write('[%d/%d] %s %.1fs paths=%d obl=%d proved=%d %s\n' % (
                    done, len(units), units[i].name, res.seconds, res.paths, len(res.obligations), res.proved,
                    ('; '.join(res.unsupported) + (' ERROR ' + res.error.strip().splitlines()[-1] if res.error else ''))[:200]))
                sys.stderr.flush()
    return results


def load_known_findings():
    p = os.path.join(HERE, 'known_findings.json')
    if not os.path.exists(p):
        return dict(findings=[], fixed=[])
    return json.load(open(p))


def write_replay(prop, name, payload):
    d = os.path.join(HERE, 'replay', prop)
    os.makedirs(d, exist_ok=True)
    safe = ''.join(c if c.isalnum() or c in '-_.' else '_' for c in name)[:120]
    p = os.path.join(d, safe + '.json')
    with open(p, 'w') as f:
        json.dump(payload, f, indent=1, default=str)
    return p


def main(prop, mod, tier, seed):
    os.environ['VERIF_ACTIVE_TIER'] = tier
    if tier == 'thorough' and 'VERIF_CVC5_SAMPLE' not in os.environ:
        os.environ['VERIF_CVC5_SAMPLE'] = '25'       # thorough: every 25th discharged obligation is re-checked by cvc5
    t0 = time.time()
    kf = load_known_findings()
    my_findings = [f for f in kf.get('findings', []) if f['property'] == prop]
    units = mod.units(tier, seed)
    if not units:
        print('checker error: no verification units for %s' % prop)
        return 3
    results = run_units(units)
    exit_code = 0
    violations = []
    undecided = []
    errors = []
    total = discharged = 0
    per_unit = []
    canaries_ok = 0
    bounded_units = []
    drift = []
    for u, r in zip(units, results):
        entry = dict(unit=u.name, level=u.level, clause=u.clause, paths=r.paths, cut_paths=r.cut_paths,
                     obligations=len(r.obligations), proved=r.proved, seconds=round(r.seconds, 2),
                     solver_s=round(r.solver_s, 2), queries=r.queries, outcomes=r.outcomes,
                     functions=u.functions, backend=u.backend)
        if u.expect_fail:
            # vacuity guard: a deliberately false obligation must NOT be discharged
            if r.failed or r.unknown:
                canaries_ok += 1
                entry['canary'] = 'fails as required'
            else:
                errors.append('canary %s was discharged: preconditions are contradictory or no obligation is generated' % u.name)
            per_unit.append(entry)
            continue
        if r.error:
            errors.append('%s: %s' % (u.name, r.error.strip().splitlines()[-1]))
            entry['error'] = r.error
        if not r.obligations and not r.error and not r.unsupported:
            errors.append('%s generated no obligations' % u.name)
        if r.extra.get('bounded'):
            # bounded stand-in: reported separately, never counted among the discharged proof obligations
            entry['bounded'] = r.extra['bounded']
            bounded_units.append(dict(unit=u.name, bounds=r.extra['bounded'], obligations=len(r.obligations), passed=r.proved))
        else:
            total += len(r.obligations)
            discharged += r.proved
        bad = r.failed + r.unknown
        if r.unsupported:
            entry['unsupported'] = r.unsupported
        if bad or r.unsupported:
            handled = False
            witness = None
            # 1. replay the verifier's counterexample on the real code
            for ob in r.failed:
                if u.replay is not None and ob.get('detail') and ob['detail'].get('inputs') is not None:
                    try:
                        w = u.replay(ob['detail']['inputs'])
                    except Exception:
                        w = dict(reproduced=False, error=traceback.format_exc())
                    if w and w.get('reproduced'):
                        witness = dict(w, obligation=ob['name'], source='verifier counterexample')
                        break
            # 2. contract-directed native search
            if witness is None and u.search is not None:
                hints = []
                for ob in bad:
                    b = ((ob.get('detail') or {}).get('inputs') or {}).get('buf') if isinstance((ob.get('detail') or {}).get('inputs'), dict) else None
                    if isinstance(b, dict) and b.get('hex') is not None:
                        try:
                            hints.append(bytes.fromhex(b['hex']))
                        except ValueError:
                            pass
                try:
                    w = u.search(seed, hints) if u.search.__code__.co_argcount >= 2 else u.search(seed)
                except Exception:
                    w = dict(reproduced=False, error=traceback.format_exc())
                if w and w.get('reproduced'):
                    witness = dict(w, obligation=(bad[0]['name'] if bad else 'unsupported'), source='native search')
            if u.level != 'property' and witness is None:
                drift.append(dict(unit=u.name, obligations=[o['name'] for o in bad][:5], unsupported=r.unsupported[:3]))
                entry['status'] = 'helper contract not discharged'
                undecided.append(u.name)
            elif witness is not None:
                kfm = match_finding(my_findings, u, witness)
                if kfm is None:
                    p = write_replay(prop, u.name, dict(property=prop, unit=u.name, clause=u.clause, witness=witness,
                                                        failed=[o for o in bad][:5], functions=u.functions))
                    violations.append((u.name, p, ''))
                    entry['status'] = 'VIOLATION (replayed)'
                else:
                    entry['status'] = 'known finding %s' % kfm['id']
            elif r.failed:
                p = write_replay(prop, u.name, dict(property=prop, unit=u.name, clause=u.clause, witness=None,
                                                    failed=r.failed[:5], note='verifier produced a counter-model; '
                                                    'no failing native input was produced from it',
                                                    functions=u.functions))
                violations.append((u.name, p, ' no-failing-input-found'))
                entry['status'] = 'VIOLATION (no failing input found)'
            else:
                undecided.append(u.name)
                entry['status'] = 'undecided'
            entry['not_discharged'] = [dict(name=o['name'], status=o['status'], detail=o.get('detail')) for o in bad][:8]
        per_unit.append(entry)
    # known findings: replay every listed witness; still failing -> KNOWN-FINDING line
    kf_lines = []
    for f in my_findings:
        fn = getattr(mod, 'FINDING_REPLAYS', {}).get(f['id'])
        if fn is None:
            errors.append('known finding %s has no replay function' % f['id'])
            continue
        try:
            still = fn()
        except Exception:
            still = dict(reproduced=False, error=traceback.format_exc())
        if still.get('reproduced'):
            kf_lines.append('KNOWN-FINDING: property=%s %s' % (prop, f['what']))
        else:
            kf_lines.append('note: known finding %s no longer reproduces (%s)' % (f['id'], still.get('observed', still.get('error', ''))))
    for ln in kf_lines:
        print(ln)
    if violations:
        exit_code = 1          # a replayed (or counter-model backed) violation stands, whatever else could not be decided
    elif errors:
        exit_code = 3
    elif undecided:
        exit_code = 2
    wall = time.time() - t0
    from . import models
    evidence = dict(
        property_id=prop, tier=tier, seed=seed, level='proof',
        coverage=dict(
            obligations=total, discharged=discharged,
            checker_cmd='./check %s --tier %s' % (prop, tier),
            trusted_base=getattr(mod, 'TRUSTED_BASE', []),
            units=len([u for u in units if not u.expect_fail]),
            canaries_failing_as_required=canaries_ok,
            functions_under_contract=sorted({f for u in units for f in u.functions}),
            backends=dict(z3=total, cvc5_second_opinion=dict(
                sampled_every=int(os.environ.get('VERIF_CVC5_SAMPLE', '0') or 0),
                confirmed_unsat=sum((r.extra.get('cvc5') or {}).get('confirmed_unsat', 0) for r in results),
                no_answer_within_10s=sum((r.extra.get('cvc5') or {}).get('no_answer', 0) for r in results),
                disagreed=sum((r.extra.get('cvc5') or {}).get('disagreed_sat', 0) for r in results))),
            solver_seconds=round(sum(r.solver_s for r in results), 2),
            solver_queries=sum(r.queries for r in results),
            paths=sum(r.paths + r.cut_paths for r in results),
            per_unit=per_unit,
            samples=sample_obligations(units, results),
            uncovered=getattr(mod, 'UNCOVERED', []),
            bounded=dict(notes=getattr(mod, 'BOUNDED', []), units=bounded_units,
                         statement='bounded units are checked only up to the stated loop bounds; they are NOT counted in obligations/discharged'),
            known_findings=[f['id'] for f in my_findings],
            contract_drift=drift,
            undecided=undecided,
            checker_errors=errors,
            exhaustive=False,
        ),
        assumptions=sorted(set(getattr(mod, 'ASSUMPTIONS', [])) | collect_assumptions(results)),
        wall_s=round(wall, 2),
        violations=len(violations),
    )
    evdir = os.environ.get('VERIF_EVIDENCE_DIR') or os.path.join(HERE, 'evidence')   # mutant evaluations write elsewhere
    os.makedirs(evdir, exist_ok=True)
    with open(os.path.join(evdir, prop + '.json'), 'w') as f:
        json.dump(evidence, f, indent=1, default=str)
    print('%s %s: units=%d obligations=%d discharged=%d undecided=%d errors=%d violations=%d wall=%.1fs'
          % (prop, tier, len(units), total, discharged, len(undecided), len(errors), len(violations), wall))
    for e in errors[:10]:
        print('CHECKER-ERROR:', e)
    for name in undecided[:10]:
        print('UNDECIDED:', name)
    for name, p, suffix in violations:
        print('VIOLATION property=%s replay=%s%s' % (prop, p, suffix))
    return exit_code


def match_finding(findings, unit, witness):
    """a replayed violation is attributed to a listed finding only if the finding names this very unit and, where it
    gives one, the same witness key; region-based findings are excluded from the proof instead and never match here"""
    for f in findings:
        if f.get('region') or not f.get('unit') or f['unit'] != unit.name:
            continue
        key = f.get('witness_key')
        if key is None or witness.get('key') == key:
            return f
    return None


def sample_obligations(units, results, n=6):
    out = []
    for u, r in zip(units, results):
        for ob in r.obligations[:2]:
            out.append(dict(unit=u.name, obligation=ob['name'], kind=ob['kind'], status=ob['status'],
                            solver_seconds=ob.get('seconds')))
            break
        if len(out) >= n:
            break
    return out


def collect_assumptions(results):
    out = set()
    for r in results:
        for a in r.extra.get('models_used', []):
            out.add('library model: ' + a)
    return out


def cli():
    import argparse
    ap = argparse.ArgumentParser()
    ap.add_argument('prop')
    ap.add_argument('--tier', default=os.environ.get('VERIF_TIER', 'quick'))
    ap.add_argument('--replay')
    a = ap.parse_args()
    seed = int(os.environ.get('VERIF_SEED', '0') or 0)
    sys.path.insert(0, HERE)
    repo = os.environ.get('VERIF_REPO', '/repo')
    sys.path.insert(0, repo)
    # the repository draws class-level defaults from `random` at import time (e.g. the default session id of the hello
    # messages): fix them so that two runs on the same tree explore the same objects
    import random
    random.seed(seed)
    mod = importlib.import_module('checks.' + a.prop.lower())
    if a.replay:
        sys.exit(replay_file(a.prop.upper(), mod, a.tier, seed, a.replay))
    rc = main(a.prop.upper(), mod, a.tier, seed)
    sys.exit(rc)


def replay_file(prop, mod, tier, seed, path):
    """re-run the native side of one recorded violation against the current tree: the verifier's counterexample (or the
    recorded native witness) is replayed on the real code; exit 1 and a VIOLATION line if it still fails"""
    d = json.load(open(path))
    units = {u.name: u for u in mod.units(tier, seed)}
    u = units.get(d.get('unit'))
    if u is None:
        print('replay: unit %r is not part of this check any more' % d.get('unit'))
        return 3
    tries = []
    for ob in d.get('failed', []):
        inp = (ob.get('detail') or {}).get('inputs')
        if inp:
            tries.append(inp)
    w = {}
    for inp in tries or [{}]:
        if u.replay is None:
            break
        try:
            w = u.replay(inp) or {}
        except Exception:
            w = dict(reproduced=False, error=traceback.format_exc()[-400:])
        if w.get('reproduced'):
            break
    if not w.get('reproduced') and u.search is not None:
        try:
            w = u.search(seed) or {}
        except Exception:
            w = dict(reproduced=False, error=traceback.format_exc()[-400:])
    print(json.dumps(w, default=str)[:2000])
    if w.get('reproduced'):
        print('VIOLATION property=%s replay=%s' % (prop, path))
        return 1
    print('replay: not reproduced on the current tree')
    return 0
