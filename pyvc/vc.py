# pyvc.vc -- verification units: explore a thunk, collect obligations, compare outcomes of body and specification
import time
import traceback

import z3

from . import values as V
from . import engine as E
from . import ops
from . import interp as I
from .values import SInt, SBool, SSeq, SStr, SEnum, SObj, SFlags, SDateTime, STimeDelta, SAbs


# ------------------------------------------------------------------------------------------- cloning
def clone(v, memo=None):
    """deep copy of a symbolic state preserving sharing (so that body and specification run on equal, disjoint states)"""
    if memo is None:
        memo = {}
    k = id(v)
    if k in memo:
        return memo[k]
    if isinstance(v, SObj):
        o = SObj(v.cls)
        memo[k] = o
        for n, x in v.f.items():
            o.f[n] = clone(x, memo)
        return o
    if isinstance(v, SSeq):
        o = v.copy()
        memo[k] = o
        return o
    if isinstance(v, list):
        o = []
        memo[k] = o
        o.extend(clone(x, memo) for x in v)
        return o
    if isinstance(v, dict):
        o = {}
        memo[k] = o
        for n, x in v.items():
            o[n] = clone(x, memo)
        return o
    if isinstance(v, tuple):
        return tuple(clone(x, memo) for x in v)
    if isinstance(v, bytearray):
        o = bytearray(v)
        memo[k] = o
        return o
    if isinstance(v, SFlags):
        return SFlags(v.cls, dict(v.bits))
    return v


# ------------------------------------------------------------------------------------------- goal-side equality
class NotComparable(Exception):
    pass


class AnyInt(object):
    """in a specification result: 'some integer' (the contract does not fix the value)"""


def goal_eq(a, b, path='value'):
    """z3 formula (for the *goal* side: sequences compared at a fresh skolem index) stating a == b structurally.
    Returns a list of (label, formula)."""
    out = []
    _geq(a, b, path, out, {})
    return out


def _geq(a, b, path, out, seen):
    key = (id(a), id(b))
    if key in seen:
        return
    seen[key] = True
    if isinstance(a, V.SCoded) or isinstance(b, V.SCoded):
        sc, other = (a, b) if isinstance(a, V.SCoded) else (b, a)
        sp = sc.spec
        if isinstance(other, V.SCoded):
            out.append((path + ' code', sc.code == other.code if sp.key() == other.spec.key() else z3.BoolVal(False)))
            return
        if sp.wrap_known is not None and isinstance(other, SObj) and other.cls is sp.wrap_known:
            inner = [v for v in other.f.values() if isinstance(v, SEnum) or isinstance(v, sp.enum_cls)]
            other = inner[0] if len(inner) == 1 else other
        if isinstance(other, SEnum) and other.cls is sp.enum_cls:
            oc = other.code_hint if other.code_hint is not None else V.enum_table(sp.enum_cls, other.idx, lambda m: m.value.code)
            out.append((path + ' (member with the same code)', z3.And(sp.known(sc.code), sc.code == oc)))
            return
        if isinstance(other, sp.enum_cls):
            out.append((path + ' (member with the same code)', sc.code == other.value.code))
            return
        if sp.fallback_cls is not None and isinstance(other, SObj) and other.cls is sp.fallback_cls:
            out.append((path + ' (fallback item with the same unassigned code)',
                        z3.And(z3.Not(sp.known(sc.code)), sc.code == ops.as_int(other.f['code']))))
            return
        out.append((path + ' coded item vs %s' % I.py_type_of(other).__name__, z3.BoolVal(False)))
        return
    if isinstance(a, AnyInt) or isinstance(b, AnyInt):
        other = b if isinstance(a, AnyInt) else a
        out.append((path + ' is an integer', z3.BoolVal(ops.is_intlike(other))))
        return
    if isinstance(a, (bytes, bytearray)) and isinstance(b, (bytes, bytearray)):
        out.append((path, z3.BoolVal(bytes(a) == bytes(b))))
        return
    if isinstance(a, (SSeq, bytes, bytearray)) and isinstance(b, (SSeq, bytes, bytearray)):
        x, y = ops.as_seq(a), ops.as_seq(b)
        out.append((path + '.len', x.n == y.n))
        j = V.fresh_int('eqi')
        out.append((path + '[*]', z3.Implies(z3.And(j >= 0, j < x.n), x.at(j) == y.at(j))))
        ka, kb = ops.seq_kind_of(a), ops.seq_kind_of(b)
        fam = lambda k: 'b' if k in ('bytes', 'bytearray') else k
        if fam(ka) != fam(kb):
            out.append((path + '.kind', z3.BoolVal(False)))
        return
    if isinstance(a, (SSeq,)) or isinstance(b, (SSeq,)):
        other = b if isinstance(a, SSeq) else a
        me = a if isinstance(a, SSeq) else b
        if isinstance(other, (list, tuple)):
            out.append((path + '.len', me.n == len(other)))
            for k, x in enumerate(other):
                _geq(I.seq_elem(me, z3.IntVal(k)), x, '%s[%d]' % (path, k), out, seen)
            return
        out.append((path + ' type', z3.BoolVal(False)))
        return
    if isinstance(a, SStr) or isinstance(b, SStr):
        if isinstance(a, SStr) and isinstance(b, SStr):
            _geq(a.seq, b.seq, path, out, seen)
        elif isinstance(a, SStr) and isinstance(b, str):
            _geq(a.seq, b.encode('ascii', 'replace'), path, out, seen)
        elif isinstance(b, SStr) and isinstance(a, str):
            _geq(a.encode('ascii', 'replace'), b.seq, path, out, seen)
        else:
            out.append((path + ' type', z3.BoolVal(False)))
        return
    if isinstance(a, SObj) and isinstance(b, SObj) and (getattr(a, 'abstract', False) or getattr(b, 'abstract', False)):
        # objects known only through their class contract: equal iff they are the same parse result
        if getattr(a, 'abstract', False) and getattr(b, 'abstract', False) and a.cls is b.cls:
            out.append((path + ' (same nested parse result)', a.abstract_id == b.abstract_id))
        else:
            out.append((path + ' (abstract vs concrete object)', z3.BoolVal(False)))
        return
    if isinstance(a, SObj) or isinstance(b, SObj) or (hasattr(type(a), '__attrs_attrs__') and hasattr(type(b), '__attrs_attrs__')):
        ca, cb = I.py_type_of(a), I.py_type_of(b)
        if ca is not cb:
            out.append((path + ' class %s vs %s' % (ca.__name__, cb.__name__), z3.BoolVal(False)))
            return
        import attr as _attr
        if not _attr.has(ca) and I.custom_dunder(ca, '__eq__') is None and not issubclass(ca, BaseException) \
                and ca.__module__.startswith('cryptoparser'):
            # a plain class without __eq__: Python compares identities
            out.append((path + ' (%s defines no __eq__: objects are equal only if identical)' % ca.__name__,
                        z3.BoolVal(a is b)))
            return
        d = I.custom_dunder(ca, '__eq__')
        if d is not None and not issubclass(ca, BaseException):
            r = I.call(d, [a, b], {})
            out.append((path + ' (__eq__)', ops.bool_expr(r) if not isinstance(r, bool) else z3.BoolVal(r)))
            return
        fa = a.f if isinstance(a, SObj) else (I.lift_native(a) if hasattr(ca, '__attrs_attrs__') else vars(a))
        fb = b.f if isinstance(b, SObj) else (I.lift_native(b) if hasattr(cb, '__attrs_attrs__') else vars(b))
        import attr
        names = [x.name for x in attr.fields(ca) if x.eq is not False] if attr.has(ca) else sorted(set(fa) | set(fb))
        if issubclass(ca, BaseException):
            names = [n for n in names if n in ('bytes_needed',)]
        for n in names:
            if n not in fa or n not in fb:
                out.append(('%s.%s missing' % (path, n), z3.BoolVal(False)))
                continue
            _geq(fa[n], fb[n], '%s.%s' % (path, n), out, seen)
        return
    if isinstance(a, (list, tuple)) and isinstance(b, (list, tuple)):
        if len(a) != len(b) or isinstance(a, list) != isinstance(b, list):
            out.append((path + ' length/type', z3.BoolVal(False)))
            return
        for k, (x, y) in enumerate(zip(a, b)):
            _geq(x, y, '%s[%d]' % (path, k), out, seen)
        return
    if isinstance(a, dict) and isinstance(b, dict):
        if set(a) != set(b):
            out.append((path + ' keys %s vs %s' % (sorted(map(str, a)), sorted(map(str, b))), z3.BoolVal(False)))
            return
        for k in a:
            _geq(a[k], b[k], '%s[%r]' % (path, k), out, seen)
        return
    try:
        r = ops.eq_values(a, b)
    except E.Unsupported as u:
        raise NotComparable('%s: %s' % (path, u))
    out.append((path, ops.bool_expr(r)))


def oblige_equal(P, name, a, b, kind='post', where=None):
    ok = True
    try:
        parts = goal_eq(a, b, name)
    except NotComparable as e:
        P.obligations.append(E.Obligation(name, kind, 'unknown', detail=dict(reason=str(e)), where=where))
        return False
    if not parts:
        P.obligations.append(E.Obligation(name + ' (no comparable state: trivially equal)', kind, 'proved', where=where))
    for label, f in parts:
        f = V.simp(f)
        if z3.is_true(f):
            P.obligations.append(E.Obligation(label, kind, 'proved', where=where))
            continue
        ok = P.oblige(label, f, kind=kind, where=where) and ok
    return ok


# ------------------------------------------------------------------------------------------- outcomes
class Outcome(object):
    def __init__(self, kind, value):
        self.kind, self.value = kind, value          # 'ret' / 'raise'

    def describe(self):
        if self.kind == 'raise':
            return 'raise %s' % self.value.cls.__name__
        return 'return'


def outcome_of(thunk):
    try:
        return Outcome('ret', thunk())
    except E.PyRaise as pr:
        return Outcome('raise', pr.exc)


def _mismatch(P, text, where):
    """outcome classes differ: a violation iff the path is feasible; an infeasible path is discharged vacuously"""
    r = P._check(rlimit=E.RLIMIT_GOAL)
    if r == z3.unsat:
        P.obligations.append(E.Obligation(text + ' [path infeasible]', 'post', 'proved', where=where))
        return True
    ob = E.Obligation(text, 'post', 'unknown', where=where)
    if r == z3.sat:
        ob.status = 'failed'
        try:
            ob.model = P.solver.model()
            ob.detail = dict(inputs=P.concretize_inputs(ob.model))
        except z3.Z3Exception:
            pass
    else:
        ob.detail = dict(reason='path feasibility undecided: %s' % P.solver.reason_unknown())
    P.obligations.append(ob)
    return False


def oblige_same_outcome(P, name, got, want, where=None, compare_exc_fields=('bytes_needed',)):
    """got: outcome of the real body; want: outcome of the specification"""
    if got.kind != want.kind:
        return _mismatch(P, '%s: body %s but specification %s' % (name, got.describe(), want.describe()), where)
    if got.kind == 'raise':
        g, w = got.value, want.value
        if g.cls is not w.cls:
            return _mismatch(P, '%s: body raises %s but specification %s' % (name, g.cls.__name__, w.cls.__name__), where)
        ok = True
        for f in compare_exc_fields:
            if f in g.f or f in w.f:
                ok = oblige_equal(P, '%s: exception.%s' % (name, f), g.f.get(f), w.f.get(f), where=where) and ok
        P.obligations.append(E.Obligation('%s: raises %s as specified' % (name, g.cls.__name__), 'post', 'proved', where=where))
        return ok
    return oblige_equal(P, '%s: result' % name, got.value, want.value, where=where)


# ------------------------------------------------------------------------------------------- units
class UnitResult(object):
    """picklable summary of one verification unit"""

    def __init__(self, name):
        self.name = name
        self.paths = 0
        self.cut_paths = 0
        self.obligations = []        # dicts
        self.unsupported = []
        self.outcomes = {}
        self.seconds = 0.0
        self.queries = 0
        self.solver_s = 0.0
        self.max_steps = 0
        self.max_depth = 0
        self.error = None
        self.extra = {}

    @property
    def proved(self):
        return sum(1 for o in self.obligations if o['status'] == 'proved')

    @property
    def failed(self):
        return [o for o in self.obligations if o['status'] == 'failed']

    @property
    def unknown(self):
        return [o for o in self.obligations if o['status'] == 'unknown']

    def ok(self):
        return not self.failed and not self.unknown and not self.unsupported and not self.error and self.obligations


def run_unit(name, thunk, on_result=None, max_paths=20000, require_obligations=True):
    """explore thunk; thunk (and on_result) register obligations on the current path"""
    res = UnitResult(name)
    from . import models as _models
    from . import loops as _loops
    _models.USED.clear()
    _loops.BOUND_HITS.clear()
    t0 = time.time()
    q0, s0 = E.STATS['queries'], E.STATS['solver_s']
    try:
        for r in E.explore(thunk, max_paths=max_paths):
            if r.kind == 'unsupported':
                res.unsupported.append(r.value)
            elif r.kind == 'end':
                res.cut_paths += 1
            else:
                res.paths += 1
                if on_result is not None:
                    try:
                        on_result(r)
                    except E.Unsupported as u:
                        res.unsupported.append('in postcondition: %s' % u)
                    except E.PyRaise as pr:
                        res.unsupported.append('postcondition raised %s' % pr.exc.cls.__name__)
                key = 'return' if r.kind == 'ret' else 'raise ' + r.value.cls.__name__
                res.outcomes[key] = res.outcomes.get(key, 0) + 1
            res.max_steps = max(res.max_steps, r.path.steps)
            res.max_depth = max(res.max_depth, r.path.max_depth)
            for ob in r.path.obligations:
                res.obligations.append(dict(name=ob.name, kind=ob.kind, status=ob.status, detail=ob.detail,
                                            where=ob.where, seconds=round(ob.seconds, 4)))
    except Exception:
        res.error = traceback.format_exc()
    res.seconds = time.time() - t0
    if E.STATS['cvc5_unsat'] or E.STATS['cvc5_unknown'] or E.STATS['cvc5_sat']:
        res.extra['cvc5'] = dict(confirmed_unsat=E.STATS['cvc5_unsat'], no_answer=E.STATS['cvc5_unknown'], disagreed_sat=E.STATS['cvc5_sat'],
                                 seconds=round(E.STATS['cvc5_s'], 2))
    res.queries = E.STATS['queries'] - q0
    res.solver_s = E.STATS['solver_s'] - s0
    res.unsupported = sorted(set(res.unsupported))
    res.extra['models_used'] = sorted(_models.USED)
    res.extra['bounded'] = sorted('%s loop#%d explored up to %d iterations' % (k[0], k[1], b) for k, b in _loops.BOUND_HITS)
    return res
