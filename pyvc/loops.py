# pyvc.loops -- for / while / comprehensions: unrolling for concrete trip counts, loop contracts otherwise
import ast
import enum

import z3

from . import values as V
from . import engine as E
from . import ops
from . import interp as I
from . import frame as F
from .values import SInt, SBool, SSeq, SStr, SEnum, SObj, SFlags
from .ops import raise_

MAX_UNROLL = 600
BOUND_HITS = set()


class SRange(object):
    def __init__(self, start, stop, step):
        self.start, self.stop, self.step = start, stop, step      # z3 exprs, step concrete python int > 0

    def count(self):
        return V.simp(z3.If(self.stop > self.start, (self.stop - self.start + self.step - 1) / self.step, z3.IntVal(0)))

    def elem(self, k):
        return ops.wrap_int(self.start + V.iv(k) * self.step)


class SEnumerate(object):
    def __init__(self, inner, start=0):
        self.inner, self.start = inner, start


def loop_key(frame, st):
    loops = [n for n in ast.walk(frame.node) if isinstance(n, (ast.For, ast.While, ast.ListComp, ast.SetComp,
                                                             ast.GeneratorExp, ast.DictComp))]
    loops.sort(key=lambda n: (n.lineno, n.col_offset))
    return (frame.fn.__qualname__, loops.index(st))


def concretize_count(n):
    """trip count as python int if the path condition fixes it, else None"""
    n = V.simp(n)
    if z3.is_int_value(n):
        return n.as_long()
    P = E.cur()
    # cheap syntactic attempt failed; ask the solver for a candidate and check that it is forced
    if P._check() != z3.sat:
        return None
    try:
        c = P.solver.model().eval(n, model_completion=True)
    except z3.Z3Exception:
        return None
    if not z3.is_int_value(c):
        return None
    if P.entails(n == c):
        return c.as_long()
    return None


def iteration_view(it):
    """-> ('concrete', list) | ('symbolic', n_expr, elem_fn)"""
    if isinstance(it, SRange):
        c = concretize_count(it.count())
        if c is not None and c <= MAX_UNROLL:
            return 'concrete', [it.elem(k) for k in range(c)]
        return 'symbolic', it.count(), it.elem
    if isinstance(it, SSeq):
        c = concretize_count(it.n)
        if c is not None and c <= MAX_UNROLL:
            return 'concrete', [I.seq_elem(it, z3.IntVal(k)) for k in range(c)]
        return 'symbolic', it.n, lambda k, it=it: I.seq_elem(it, V.iv(k))
    if isinstance(it, SStr):
        raise E.Unsupported('iteration over symbolic text')
    if isinstance(it, SEnumerate):
        v = iteration_view(it.inner)
        if v[0] == 'concrete':
            return 'concrete', [(it.start + k, x) for k, x in enumerate(v[1])]
        return 'symbolic', v[1], lambda k, v=v, it=it: (ops.wrap_int(V.iv(k) + it.start), v[2](k))
    if isinstance(it, SObj):
        try:
            d, owner = I.class_lookup(it.cls, '__iter__')
        except AttributeError:
            d = None
        if d is not None and not owner.__module__.startswith(('collections', '_collections')):
            res = I.call(d, [it], {})
            return iteration_view(res)
        # sequence protocol: __len__ / __getitem__
        n = I.obj_len(it)
        gi, _ = I.class_lookup(it.cls, '__getitem__')
        if isinstance(n, int):
            return 'concrete', [I.call(gi, [it, k], {}) for k in range(n)]
        c = concretize_count(ops.as_int(n))
        if c is not None and c <= MAX_UNROLL:
            return 'concrete', [I.call(gi, [it, k], {}) for k in range(c)]
        return 'symbolic', ops.as_int(n), lambda k, it=it, gi=gi: I.call(gi, [it, ops.wrap_int(V.iv(k))], {})
    if isinstance(it, SFlags):
        # a set: size = number of members present; the k-th element is *some* member that is present (order abstracted:
        # only loops whose contract does not depend on the order can be verified through this view)
        ms = list(it.cls)
        n = z3.Sum(*[z3.If(it.bits[m], 1, 0) for m in ms if m in it.bits]) if it.bits else z3.IntVal(0)

        def elem(k, it=it, ms=ms):
            P = E.cur()
            idx = V.fresh_int('member')
            P.assume(z3.Or(*[z3.And(idx == i, it.bits[m]) for i, m in enumerate(ms) if m in it.bits]))
            return SEnum(it.cls, idx)
        c = concretize_count(n)
        if c == 0:
            return 'concrete', []
        return 'symbolic', V.simp(n), elem
    if isinstance(it, type) and issubclass(it, enum.Enum):
        return 'concrete', list(it)
    if isinstance(it, dict):
        return 'concrete', list(it.keys())
    if isinstance(it, (list, tuple, set, frozenset, bytes, bytearray, str, range)):
        return 'concrete', list(it)
    if V.is_symbolic(it) or type(it).__module__.startswith('pyvc'):
        raise E.Unsupported('iteration over %s' % type(it).__name__)
    try:
        return 'concrete', list(it)
    except TypeError:
        raise_(TypeError, 'not iterable')


class LoopCtx(object):
    def __init__(self, frame, n, elem, key, stmt=None):
        self.frame, self.n, self.elem, self.key, self.stmt = frame, n, elem, key, stmt
        self.entry = dict(frame.env)


def run_for_flags_merged(frame, st, flags):
    """for x in <symbolic set of enum members>: body  -- when the body only updates local integer accumulators (no
    exception, no other effect), run it once per member under the guard 'member present' and merge the updates
    (if-conversion). Exact for any iteration order because each guarded update is applied to every possible member
    exactly once; order-dependent bodies are rejected (the merged values of two orders must agree syntactically:
    only commutative accumulator updates |=, +=, &= pass the check)."""
    P = E.cur()
    body_names = assigned_names(st.body)
    for node in ast.walk(ast.Module(body=st.body, type_ignores=[])):
        if isinstance(node, (ast.Raise, ast.Return, ast.Break, ast.Continue, ast.Call)):
            if isinstance(node, ast.Call):
                continue
            return False
    for stn in st.body:
        if not (isinstance(stn, ast.AugAssign) and isinstance(stn.op, (ast.BitOr, ast.Add, ast.BitAnd))
                and isinstance(stn.target, ast.Name)):
            return False
    # accumulators updated only by  acc |= <int>  are kept as guarded bit sets {bit: condition} (exact, and far simpler
    # for the solver than nested integer expressions); everything else is merged with if-then-else terms
    or_only = {}
    for stn in st.body:
        if isinstance(stn.op, ast.BitOr):
            or_only.setdefault(stn.target.id, True)
        else:
            or_only[stn.target.id] = False
    bitsets = {}
    for n, flag_ok in or_only.items():
        cur = frame.env.get(n)
        if flag_ok and isinstance(cur, int) and not isinstance(cur, bool) and cur >= 0:
            bitsets[n] = {b: z3.BoolVal(True) for b in range(cur.bit_length()) if (cur >> b) & 1}
    for m in list(flags.cls):
        if m not in flags.bits:
            continue
        g = V.simp(flags.bits[m])
        if z3.is_false(g):
            continue
        before = {n: frame.env.get(n) for n in body_names}
        for n in bitsets:
            frame.env[n] = 0                     # measure the contribution of this member alone
        frame.assign(st.target, m)
        with P.scope():
            P.assume(g)
            try:
                frame.block(st.body)
            except E.PyRaise:
                raise E.Unsupported('guarded set iteration: body may raise')
        for n in body_names:
            new, old = frame.env.get(n), before[n]
            if n in bitsets:
                if not (isinstance(new, int) and not isinstance(new, bool) and new >= 0):
                    raise E.Unsupported('guarded set iteration: |= of a non-constant')
                for b in range(new.bit_length()):
                    if (new >> b) & 1:
                        c = bitsets[n].get(b)
                        bitsets[n][b] = g if c is None else z3.Or(c, g)
                frame.env[n] = old
                continue
            if new is old:
                continue
            if not (ops.is_intlike(new) and ops.is_intlike(old)):
                raise E.Unsupported('guarded set iteration: non-integer accumulator %s' % n)
            frame.env[n] = ops.wrap_int(V.ite(g, ops.as_int(new), ops.as_int(old)))
    for n, bits in bitsets.items():
        total = z3.IntVal(0)
        for b, c in sorted(bits.items()):
            total = total + z3.If(c, z3.IntVal(2 ** b), z3.IntVal(0))
        frame.env[n] = ops.wrap_int(total)
    return True


def run_for(frame, st):
    it = frame.ev(st.iter)
    key = loop_key(frame, st)
    spec = F.LOOPS.get(key)
    if isinstance(it, SFlags) and spec is None and not st.orelse:
        if run_for_flags_merged(frame, st, it):
            return
    if spec is not None and hasattr(spec, 'applies') and not spec.applies(frame):
        spec = None
    if spec is not None and getattr(spec, 'force', False):
        view = spec.view(frame, it)
    else:
        view = iteration_view(it)
    if view[0] == 'concrete' and (spec is None or not getattr(spec, 'force', False)):
        broke = False
        for x in view[1]:
            frame.assign(st.target, x)
            try:
                frame.block(st.body)
            except F.Break:
                broke = True
                break
            except F.Continue:
                continue
        if not broke:
            frame.block(st.orelse)
        return
    if spec is None:
        bound = F.BOUNDS.get(key, F.DEFAULT_BOUND)
        if bound is None:
            raise E.Unsupported('loop %s:%d has a symbolic trip count and no loop contract' % key)
        # bounded stand-in: trip counts 0..bound are explored, longer ones are cut (reported, never counted as proved)
        _, n, elem = view
        P = E.cur()
        cnt = None
        for c in range(bound + 1):
            if P.branch(n <= c):
                cnt = c
                break
        if cnt is None:
            P.notes.append(('bounded', key, bound))
            BOUND_HITS.add((key, bound))
            raise E.PathEnd()
        BOUND_HITS.add((key, bound))
        broke = False
        for k in range(cnt):
            frame.assign(st.target, elem(z3.IntVal(k)))
            try:
                frame.block(st.body)
            except F.Break:
                broke = True
                break
            except F.Continue:
                continue
        if not broke:
            frame.block(st.orelse)
        return
    _, n, elem = view
    ctx = LoopCtx(frame, n, elem, key, st)
    run_with_contract(frame, st, spec, ctx, target=st.target)


def run_while(frame, st):
    key = loop_key(frame, st)
    spec = F.LOOPS.get(key)
    if spec is not None and hasattr(spec, 'applies') and not spec.applies(frame):
        spec = None
    if spec is None:
        count = 0
        bound = F.BOUNDS.get(key, F.DEFAULT_BOUND)
        while ops.truth(frame.ev(st.test)):
            count += 1
            if bound is not None and count > bound:
                # bounded stand-in: executions with more iterations are not explored (reported, never counted as proved)
                E.cur().notes.append(('bounded', key, bound))
                BOUND_HITS.add((key, bound))
                raise E.PathEnd()
            if count > MAX_UNROLL:
                raise E.Unsupported('while loop %s:%d unrolled %d times without contract' % (key + (count,)))
            try:
                frame.block(st.body)
            except F.Break:
                return
            except F.Continue:
                continue
        frame.block(st.orelse)
        return
    ctx = LoopCtx(frame, None, None, key, st)
    run_with_contract(frame, st, spec, ctx, test=st.test)


class _Guarded(object):
    """a loop contract whose own evaluation is shielded: a contract that names a local the code no longer has (a renamed
    temporary, a restructured loop) is a limitation of the contract - *unsupported*, hence undecided - and never a program
    exception of the code under verification"""

    def __init__(self, spec, key):
        self._spec, self._key = spec, key

    def __getattr__(self, name):
        attr = getattr(self._spec, name)
        if not callable(attr):
            return attr
        key = self._key

        def call(*a, **k):
            try:
                return attr(*a, **k)
            except E.PyRaise as pr:
                cls = getattr(getattr(pr, 'exc', None), 'cls', None)
                if cls is not None and issubclass(cls, (NameError, KeyError, AttributeError, UnboundLocalError)):
                    raise E.Unsupported('the loop contract of %s loop#%d does not fit the current code (%s while evaluating the contract)'
                                        % (key[0], key[1], cls.__name__))
                raise
            except (KeyError, AttributeError) as ex:
                raise E.Unsupported('the loop contract of %s loop#%d does not fit the current code (%s)' % (key[0], key[1], type(ex).__name__))
        return call


def run_with_contract(frame, st, spec, ctx, target=None, test=None):
    spec = _Guarded(spec, ctx.key)
    P = E.cur()
    where = '%s loop#%d' % ctx.key
    for name, goal in spec.entry(frame, ctx):
        P.oblige('%s entry: %s' % (where, name), goal, kind='loop-entry', where=where)
    if P.choose('iter'):
        k = V.fresh_int('k')
        P.assume(k >= 0)
        if ctx.n is not None:
            P.assume(k < ctx.n)
        spec.arbitrary(frame, ctx, k)
        if test is not None:
            if not ops.truth(frame.ev(test)):
                raise E.PathEnd()
        if target is not None:
            frame.assign(target, ctx.elem(k))
        P.notes.append(('loop-iteration', ctx.key))
        try:
            frame.block(st.body)
        except F.Continue:
            pass
        except F.Break:
            spec.on_break(frame, ctx, k)
            return
        for name, goal in spec.after(frame, ctx, k):
            P.oblige('%s preserved: %s' % (where, name), goal, kind='loop-step', where=where)
        raise E.PathEnd()
    else:
        spec.exit(frame, ctx)
        if test is not None:
            if ops.truth(frame.ev(test)):
                raise E.PathEnd()
        frame.block(st.orelse)


# --------------------------------------------------------------------------------------------- comprehensions
def comprehension(frame, e, kind):
    if len(e.generators) != 1:
        return comp_unroll(frame, e, kind)
    g = e.generators[0]
    it = frame.ev(g.iter)
    key = loop_key(frame, e)
    spec = F.LOOPS.get(key)
    if spec is not None and hasattr(spec, 'comprehension'):
        return spec.comprehension(frame, e, it)
    # flag-set rule: {f(x) for x in EnumClass if c(x)} with symbolic c
    if kind == 'set' and isinstance(it, type) and issubclass(it, enum.Enum) and g.ifs:
        return comp_flagset(frame, e, g, it)
    # sub-set rule: [x for x in flags if c(x)] keeps the members of a symbolic flag set for which c holds (the result is
    # used as an unordered collection: anything order dependent on it is reported as unsupported by SFlags itself)
    if kind in ('list', 'set') and isinstance(it, SFlags) and g.ifs and isinstance(e.elt, ast.Name) \
            and isinstance(g.target, ast.Name) and e.elt.id == g.target.id:
        P = E.cur()
        sub = F.Frame(frame.fn, dict(frame.env), frame.node, parent=frame.parent)
        bits = {}
        for m, present in it.bits.items():
            sub.assign(g.target, m)
            with P.scope():
                cond = z3.And(*[to_bool_expr(sub.ev(c)) for c in g.ifs])
            bits[m] = V.simp(z3.And(present, cond))
        return SFlags(it.cls, bits)
    view = iteration_view(it)
    if view[0] == 'concrete':
        return comp_unroll_items(frame, e, g, view[1], kind)
    if kind == 'list' and not g.ifs:
        return comp_map(frame, e, g, view[1], view[2])
    if kind == 'list' and g.ifs:
        return SFilter(frame, e, g, view[1], view[2])
    raise E.Unsupported('comprehension %s:%d over a symbolic-length iterable' % key)


def comp_unroll(frame, e, kind):
    out = []

    def rec(gi, fr):
        if gi == len(e.generators):
            if kind == 'dict':
                out.append((fr.ev(e.key), fr.ev(e.value)))
            else:
                out.append(fr.ev(e.elt))
            return
        g = e.generators[gi]
        view = iteration_view(fr.ev(g.iter))
        if view[0] != 'concrete':
            raise E.Unsupported('nested comprehension over symbolic iterable')
        for x in view[1]:
            fr.assign(g.target, x)
            if all(ops.truth(fr.ev(c)) for c in g.ifs):
                rec(gi + 1, fr)
    sub = F.Frame(frame.fn, dict(frame.env), frame.node, parent=frame.parent)
    rec(0, sub)
    return finish(out, kind)


def finish(out, kind):
    if kind == 'list':
        return out
    if kind == 'dict':
        return dict(out)
    if V.is_symbolic(out):
        raise E.Unsupported('set of symbolic values')
    return set(out)


def comp_unroll_items(frame, e, g, items, kind):
    sub = F.Frame(frame.fn, dict(frame.env), frame.node, parent=frame.parent)
    out = []
    for x in items:
        sub.assign(g.target, x)
        if all(ops.truth(sub.ev(c)) for c in g.ifs):
            if kind == 'dict':
                out.append((sub.ev(e.key), sub.ev(e.value)))
            else:
                out.append(sub.ev(e.elt))
    return finish(out, kind)


def comp_map(frame, e, g, n, elem):
    """[f(x) for x in xs] over a symbolic-length xs: result[j] = f(xs[j]); f must be branch-free and total"""
    P = E.cur()
    j = V.fresh_int('cj')
    sub = F.Frame(frame.fn, dict(frame.env), frame.node, parent=frame.parent)
    with P.scope():
        P.assume(z3.And(j >= 0, j < n))
        sub.assign(g.target, elem(j))
        try:
            v = sub.ev(e.elt)
        except E.PyRaise as pr:
            raise E.Unsupported('comprehension element may raise %s' % pr.exc.cls.__name__)
    if isinstance(v, (SInt, int)) and not isinstance(v, bool):
        term = ops.as_int(v)
        return SSeq(n, lambda i, term=term, j=j: z3.substitute(term, (j, V.iv(i))), 'list')
    if isinstance(v, SEnum):
        term = v.idx
        return SSeq(n, lambda i, term=term, j=j: z3.substitute(term, (j, V.iv(i))), 'list', ('enum', v.cls))
    if isinstance(v, SSeq) and v.kind in ('bytes', 'bytearray') and z3.is_int_value(v.n) and v.n.as_long() == 1:
        term = v.at(z3.IntVal(0))
        return SSeq(n, lambda i, term=term, j=j: z3.substitute(term, (j, V.iv(i))), 'list', 'byte1')
    raise E.Unsupported('comprehension element of type %s' % type(v).__name__)


def to_bool_expr(v):
    if isinstance(v, SBool):
        return v.e
    if isinstance(v, (SInt,)):
        return v.e != 0
    if isinstance(v, (bool, int)):
        return z3.BoolVal(bool(v))
    if isinstance(v, SSeq):
        return v.n != 0
    raise E.Unsupported('condition of type %s in flag-set comprehension' % type(v).__name__)


def comp_flagset(frame, e, g, cls):
    P = E.cur()
    bits = {}
    sub = F.Frame(frame.fn, dict(frame.env), frame.node, parent=frame.parent)
    any_sym = False
    for m in list(cls):
        sub.assign(g.target, m)
        with P.scope():
            cond = z3.And(*[to_bool_expr(sub.ev(c)) for c in g.ifs]) if g.ifs else z3.BoolVal(True)
        cond = V.simp(cond)
        if z3.is_false(cond):
            bits[m] = z3.BoolVal(False)
            continue
        if not z3.is_true(cond):
            any_sym = True
        if not P.feasible(cond):
            bits[m] = z3.BoolVal(False)
            continue
        pending = None
        with P.scope():
            P.assume(cond)
            try:
                v = sub.ev(e.elt)
                ok = ops.eq_values(v, m)
                if ok is not True and not (isinstance(ok, SBool) and P.entails(ok.e)):
                    raise E.Unsupported('flag-set comprehension element is not the iterated member')
            except E.PyRaise as pr:
                pending = pr
        if pending is not None:
            # the element expression raises for this member whenever its condition holds: a real path
            if P.branch(cond):
                raise pending
            bits[m] = z3.BoolVal(False)
            continue
        bits[m] = cond
    if not any_sym:
        return {m for m, b in bits.items() if z3.is_true(b)}
    return SFlags(cls, bits)




# --------------------------------------------------------------------------------------------- loop contracts
class Poison(object):
    """value of a loop temporary after a contracted loop: reading it makes the obligation undecided"""

    def __init__(self, name):
        self.name = name


def assigned_names(nodes):
    out = set()
    for st in nodes:
        for n in ast.walk(st):
            if isinstance(n, ast.Name) and isinstance(n.ctx, (ast.Store, ast.Del)):
                out.add(n.id)
    return out


def _get_path(frame, path):
    parts = path.split('.')
    v = frame.lookup(parts[0])
    for a in parts[1:]:
        v = I.getattr_(v, a)
    return v


def _set_path(frame, path, val):
    parts = path.split('.')
    if len(parts) == 1:
        cur = frame.env.get(path)
        if isinstance(cur, SSeq) and isinstance(val, SSeq) and cur.kind in ('list', 'bytearray'):
            cur.set(val.n, val._at)          # in-place objects keep their identity (aliases observe the change)
            cur.elem = val.elem
        else:
            frame.env[path] = val
        return
    o = frame.lookup(parts[0])
    for a in parts[1:-1]:
        o = I.getattr_(o, a)
    cur = I.getattr_(o, parts[-1])
    if isinstance(cur, SSeq) and isinstance(val, SSeq) and cur.kind in ('list', 'bytearray'):
        cur.set(val.n, val._at)
        cur.elem = val.elem
    else:
        I.setattr_(o, parts[-1], val)


def loop_carried_names(frame, stmt):
    """locals that exist before the loop and are modified inside it (assignment, augmented assignment, or a mutating
    method call such as .append): the loop-carried state, as opposed to temporaries born inside the body"""
    mutators = {'append', 'extend', 'insert', 'add', 'update', 'pop', 'remove', 'clear'}
    modified = set()
    for n in ast.walk(stmt):
        if isinstance(n, ast.Name) and isinstance(n.ctx, ast.Store):
            modified.add(n.id)
        elif isinstance(n, ast.AugAssign) and isinstance(n.target, ast.Name):
            modified.add(n.target.id)
        elif isinstance(n, ast.Call) and isinstance(n.func, ast.Attribute) and n.func.attr in mutators and isinstance(n.func.value, ast.Name):
            modified.add(n.func.value.id)
    before = set()
    for n in ast.walk(frame.node):
        if isinstance(n, ast.Name) and isinstance(n.ctx, ast.Store) and getattr(n, 'lineno', 10 ** 9) < stmt.lineno:
            before.add(n.id)
    if hasattr(stmt, 'target'):
        modified -= {x.id for x in ast.walk(stmt.target) if isinstance(x, ast.Name)}
    return modified & before


def remap_contract_names(frame, ctx, names):
    """{contract name -> name in the current code}: identity for names the function still has; ONE contract name that
    disappeared is matched with the ONE loop-carried local the contract does not mention (a renamed temporary). Anything
    less clear-cut is left alone (the guarded evaluation then reports the contract as not fitting: undecided)"""
    present = {n.id for n in ast.walk(frame.node) if isinstance(n, ast.Name)} | {a.arg for a in ast.walk(frame.node) if isinstance(a, ast.arg)}
    roots = {n.split('.')[0] for n in names}
    missing = [r for r in roots if r not in present]
    mapping = {r: r for r in roots}
    if len(missing) == 1 and getattr(ctx, 'stmt', None) is not None:
        cands = loop_carried_names(frame, ctx.stmt) - roots
        if len(cands) == 1:
            mapping[missing[0]] = next(iter(cands))
    return mapping


def _apply_map(path, mapping):
    parts = path.split('.')
    parts[0] = mapping.get(parts[0], parts[0])
    return '.'.join(parts)


class FunctionalLoop(object):
    """loop contract in functional form: the value of every variable the loop modifies, as a function of the
    number k of completed iterations, plus universally quantified facts about the completed iterations.

      state(frame, ctx, k)  -> {path: value}
      qfacts(frame, ctx)    -> [lambda j: z3 Bool]      meaning  forall j. 0 <= j < k  =>  fact(j)
      facts(frame, ctx, k)  -> [z3 Bool]
    """
    force = False

    def __init__(self, state, qfacts=None, facts=None, temporaries=()):
        self._raw_state, self._qfacts, self._facts = state, qfacts, facts
        self.temporaries = set(temporaries)

    def _state(self, frame, ctx, k):
        d = self._raw_state(frame, ctx, k)
        mapping = remap_contract_names(frame, ctx, list(d))
        return {_apply_map(p, mapping): v for p, v in d.items()}

    def entry(self, frame, ctx):
        from . import vc
        out = []
        for path, val in self._state(frame, ctx, z3.IntVal(0)).items():
            for label, f in vc.goal_eq(_get_path(frame, path), val, path):
                out.append((label, f))
        if self._facts:
            for i, f in enumerate(self._facts(frame, ctx, z3.IntVal(0))):
                out.append(('fact#%d' % i, f))
        return out

    def _assume(self, frame, ctx, k):
        P = E.cur()
        for path, val in self._state(frame, ctx, k).items():
            _set_path(frame, path, val)
        if self._qfacts:
            j = z3.Int('j!q')
            for qf in self._qfacts(frame, ctx):
                P.assume(z3.ForAll([j], z3.Implies(z3.And(j >= 0, j < k), qf(j))))
        if self._facts:
            for f in self._facts(frame, ctx, k):
                P.assume(f)

    def arbitrary(self, frame, ctx, k):
        self._assume(frame, ctx, k)

    def after(self, frame, ctx, k):
        from . import vc
        out = []
        k1 = k + 1
        for path, val in self._state(frame, ctx, k1).items():
            for label, f in vc.goal_eq(_get_path(frame, path), val, path):
                out.append((label, f))
        if self._qfacts:
            for i, qf in enumerate(self._qfacts(frame, ctx)):
                # forall j < k is assumed; the new instance is j = k
                out.append(('qfact#%d at k' % i, qf(k)))
        if self._facts:
            for i, f in enumerate(self._facts(frame, ctx, k1)):
                out.append(('fact#%d' % i, f))
        return out

    def exit(self, frame, ctx):
        P = E.cur()
        n = ctx.n
        if n is None:
            # while loop: some number of completed iterations; the negated guard (checked by the caller) fixes it
            nn = V.fresh_int('kexit')
            P.assume(nn >= 0)
        else:
            nn = V.simp(z3.If(n < 0, z3.IntVal(0), n))
        self._assume(frame, ctx, nn)
        self.poison(frame, ctx)

    def on_break(self, frame, ctx, k):
        pass

    def poison(self, frame, ctx):
        st = ctx.stmt
        names = assigned_names(st.body) | (assigned_names([st.target]) if hasattr(st, 'target') else set())
        keep = {p.split('.')[0] for p in self._state(frame, ctx, z3.IntVal(0))}
        for nme in names - keep:
            frame.env[nme] = Poison(nme)


class HavocLoop(object):
    """classic loop contract: the listed variables are havocked (fresh values of the same sort), the invariant
    `inv(frame) -> [(name, z3 Bool)]` over the current state is assumed before and proved after an arbitrary iteration"""
    force = False

    def __init__(self, variables, inv=None):
        self.variables, self._inv = list(variables), inv

    def _inv_list(self, frame):
        return list(self._inv(frame)) if self._inv else []

    def entry(self, frame, ctx):
        return self._inv_list(frame)

    def _havoc(self, frame, ctx=None):
        P = E.cur()
        mapping = remap_contract_names(frame, ctx, self.variables) if ctx is not None else {}
        for path in [_apply_map(p, mapping) for p in self.variables]:
            cur = _get_path(frame, path)
            if isinstance(cur, (SInt, SBool)) or (isinstance(cur, int) and not isinstance(cur, bool)):
                _set_path(frame, path, SInt(V.fresh_int('hv_' + path.replace('.', '_'))))
            elif isinstance(cur, (SSeq, bytes, bytearray)):
                kind = ops.seq_kind_of(cur)
                seq, facts = V.base_seq('hv_' + path.replace('.', '_'), kind, byte_valued=kind in ('bytes', 'bytearray'))
                for f in facts:
                    P.assume(f)
                _set_path(frame, path, seq)
            elif isinstance(cur, (SStr, str)) and '.' not in path:
                seq, facts = V.base_seq('hv_' + path, 'bytes')
                for f in facts:
                    P.assume(f)
                j = z3.Int('j!q')
                P.assume(z3.ForAll([j], z3.Implies(z3.And(j >= 0, j < seq.n), seq.at(j) < 128)))
                frame.env[path] = SStr(seq, 'ascii')
            elif isinstance(cur, list) and '.' not in path:
                # a list the loop appends to: after an unknown number of iterations it holds an unknown number of
                # (opaque) items
                seq, facts = V.base_seq('hv_' + path, 'list', byte_valued=False)
                for f in facts:
                    P.assume(f)
                seq.elem = 'opaque'
                frame.env[path] = seq
            else:
                raise E.Unsupported('havoc of %s (%s)' % (path, type(cur).__name__))
        for name, f in self._inv_list(frame):
            P.assume(f)

    def arbitrary(self, frame, ctx, k):
        self._havoc(frame, ctx)

    def after(self, frame, ctx, k):
        return self._inv_list(frame)

    def exit(self, frame, ctx):
        self._havoc(frame, ctx)
        st = ctx.stmt
        names = assigned_names(st.body) | (assigned_names([st.target]) if hasattr(st, 'target') else set())
        mapping = remap_contract_names(frame, ctx, self.variables)
        keep = {_apply_map(p, mapping).split('.')[0] for p in self.variables}
        for nme in names - keep:
            frame.env[nme] = Poison(nme)

    def on_break(self, frame, ctx, k):
        pass


class ProgressLoop(HavocLoop):
    """loop contract for termination / work bounds: the listed variables are havocked under the invariant, and one
    arbitrary iteration must strictly increase `measure(frame)` (an integer term, e.g. the number of bytes consumed) by
    at least `step` while keeping it <= `limit(frame)`; the trip count is then at most (limit - initial measure) / step"""

    def __init__(self, variables, measure, limit, inv=None, step=1):
        HavocLoop.__init__(self, variables, inv)
        self.measure, self.limit, self.step = measure, limit, step

    def _inv_list(self, frame):
        out = HavocLoop._inv_list(self, frame)
        out.append(('measure within its limit', self.measure(frame) <= self.limit(frame)))
        return out

    def arbitrary(self, frame, ctx, k):
        HavocLoop.arbitrary(self, frame, ctx, k)
        ctx.m0 = self.measure(frame)

    def after(self, frame, ctx, k):
        return HavocLoop.after(self, frame, ctx, k) + [
            ('progress: the iteration consumes at least %d byte(s)' % self.step, self.measure(frame) >= ctx.m0 + self.step)]


class SFilter(object):
    """[f(x) for x in xs if c(x)] over a symbolic-length xs, evaluated lazily: only `next(iter(..))` (first match or
    StopIteration) is supported - the idiom the code base uses to search a byte string"""

    def __init__(self, frame, e, g, n, elem):
        self.frame, self.e, self.g, self.n, self.elem = frame, e, g, n, elem

    def first(self):
        P = E.cur()
        n = self.n
        j = V.fresh_int('fj')
        sub = F.Frame(self.frame.fn, dict(self.frame.env), self.frame.node, parent=self.frame.parent)
        with P.scope():
            P.assume(z3.And(j >= 0, j < n))
            sub.assign(self.g.target, self.elem(j))
            cond = z3.And(*[to_bool_expr(sub.ev(c)) for c in self.g.ifs])
            val = sub.ev(self.e.elt)
        if not ops.is_intlike(val):
            raise E.Unsupported('filtered comprehension element of type %s' % type(val).__name__)
        vterm = ops.as_int(val)
        at = lambda i: z3.substitute(cond, (j, V.iv(i)))
        jq = z3.Int('j!q')
        if P.choose('some element matches'):
            w = V.fresh_int('first')
            P.assume(z3.And(w >= 0, w < n, at(w), z3.ForAll([jq], z3.Implies(z3.And(jq >= 0, jq < w), z3.Not(at(jq))))))
            return True, ops.wrap_int(z3.substitute(vterm, (j, w)))
        P.assume(z3.ForAll([jq], z3.Implies(z3.And(jq >= 0, jq < n), z3.Not(at(jq)))))
        return False, None
