# pyvc.spec -- specification vocabulary: positional encodings of unsigned integers, written independently of struct
import z3

from . import values as V
from .values import SSeq, iv, simp

BIG = ('>', '!')
LITTLE = ('<', '=')      # '=' (native) is little-endian on the verification host (x86-64); stated as an assumption


def is_big(order_char):
    return order_char in BIG


def quot(v, k):
    """v div 256**k written as k successive divisions by 256 (the form linear arithmetic handles well; the
    identity (x div a) div b = x div (a*b) for a, b > 0 bridges to the closed form, see lemma_quot)"""
    q = iv(v)
    for _ in range(k):
        q = q / 256
    return q


def digit(v, size, k, order_char):
    """k-th byte (0 = first on the wire) of the size-byte positional encoding of v"""
    w = size - 1 - k if is_big(order_char) else k          # weight exponent of that byte
    return quot(v, w) % 256


def lemma_quot(P, v, size):
    """prove, then assume:  quot(v, k) == v div 256**k  for 1 <= k < size"""
    v = iv(v)
    for k in range(2, size):
        f = quot(v, k) == v / (256 ** k)
        P.oblige('lemma: ((v div 256) .. div 256) [%d times] == v div 256^%d' % (k, k), f, kind='lemma')
        P.assume(f)


def pow256(k):
    k = simp(iv(k))
    if z3.is_int_value(k):
        return z3.IntVal(256 ** k.as_long())
    raise ValueError('symbolic exponent')


def enc(v, size, order_char, kind='bytes'):
    """size-byte encoding of v as a sequence"""
    return V.seq_of_terms([digit(v, size, k, order_char) for k in range(size)], kind)


def dec(seq_at, off, size, order_char):
    """value of the size bytes starting at offset off"""
    off = iv(off)
    e = z3.IntVal(0)
    idx = range(size) if is_big(order_char) else range(size - 1, -1, -1)
    for k in idx:
        e = e * 256 + seq_at(simp(off + k))
    return e


def flat_enc(values, size, order_char, kind='bytearray'):
    """concatenation of the encodings of all elements of the int sequence `values`"""
    n = values.n

    def at(i, vat=values._at):
        i = iv(i)
        item = simp(i / size)
        pos = simp(i % size)
        v = vat(item)
        e = digit(v, size, size - 1, order_char)
        for k in range(size - 2, -1, -1):
            e = V.ite(simp(pos == k), digit(v, size, k, order_char), e)
        return e
    return SSeq(simp(n * size), at, kind)


def in_range(v, size):
    v = iv(v)
    return z3.And(v >= 0, v < 256 ** size)
