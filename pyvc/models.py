# pyvc.models -- semantic models of the library functions the verified code calls (DESIGN.md section 9).
# Every model here is an *assumption* about CPython / the standard library; pyvc.crosscheck compares each of them
# with CPython on concrete inputs.
import builtins
import datetime
import enum
import struct
import types

import attr
import six
import z3

from . import values as V
from . import engine as E
from . import ops
from . import interp as I
from . import loops
from .values import SInt, SBool, SSeq, SStr, SEnum, SEnumValue, SObj, SFlags, SRat, SDateTime, STimeDelta, SAbs
from .interp import model, method_model
from .ops import mk_exc, raise_, as_int, wrap_int, wrap_bool

USED = set()          # names of models actually exercised (reported as assumptions)


def used(name):
    USED.add(name)


# ------------------------------------------------------------------------------------------------ builtins
@model(len)
def _len(x):
    if isinstance(x, SSeq):
        return wrap_int(x.n)
    if isinstance(x, SStr):
        used('len(str) = number of code units (ascii text)')
        return wrap_int(x.seq.n)
    if isinstance(x, SObj):
        return I.obj_len(x)
    if isinstance(x, SFlags):
        return wrap_int(z3.Sum(*[z3.If(b, 1, 0) for b in x.bits.values()]))
    if isinstance(x, SAbs) and isinstance(x.kind, tuple) and x.kind[0] == 'enum_str':
        _, ecls, attr_name = x.kind
        return wrap_int(V.enum_table(ecls, x.term, lambda m: len(getattr(m.value, attr_name))))
    if V.is_symbolic(x) and not isinstance(x, (list, tuple, dict, set)):
        raise_(TypeError, 'object has no len()')
    return I.native(len, [x], {})


@model(bytes)
def _bytes(x=b'', *a):
    if isinstance(x, SSeq):
        if x.kind in ('bytes', 'bytearray'):
            return x.copy('bytes')
        return seq_to_bytes(x, 'bytes')
    if isinstance(x, (SInt, SBool)):
        n = as_int(x)
        if E.cur().branch(n < 0):
            raise_(ValueError, 'negative count')
        return SSeq(n, lambda i: z3.IntVal(0), 'bytes')
    if isinstance(x, SStr):
        raise_(TypeError, 'string argument without an encoding')
    if isinstance(x, SObj):
        items = vector_items(x)
        if items is not None:
            return seq_to_bytes(items, 'bytes')
        raise E.Unsupported('bytes(object)')
    if isinstance(x, (list, tuple)) and V.is_symbolic(x):
        return seq_to_bytes(ops.as_seq(x), 'bytes')
    return I.native(bytes, [x] + list(a), {})


def vector_items(o):
    """the int sequence a repository vector object iterates over (ArrayBase.__len__/__getitem__ read _items)"""
    from cryptoparser.common.base import ArrayBase
    if isinstance(o, SObj) and issubclass(o.cls, ArrayBase) and isinstance(o.f.get('_items'), (SSeq, list)):
        items = o.f['_items']
        if isinstance(items, list) and not all(ops.is_intlike(x) for x in items):
            return None
        used('iterating an ArrayBase object yields the elements of its _items in order (its __len__/__getitem__)')
        return ops.as_seq(items)
    return None


def seq_to_bytes(x, kind):
    """bytes(list of ints): every element must be in range(256) else ValueError"""
    P = E.cur()
    c = loops.concretize_count(x.n)
    if c is not None:
        for k in range(c):
            e = x.at(z3.IntVal(k))
            if P.branch(z3.Or(e < 0, e > 255)):
                raise_(ValueError, 'bytes must be in range(0, 256)')
        return x.copy(kind)
    j = z3.Int('j!q')
    w = V.fresh_int('badbyte')
    bad = z3.And(w >= 0, w < x.n, z3.Or(x.at(w) < 0, x.at(w) > 255))
    if P.choose('bytes_range'):
        P.assume(bad)
        raise_(ValueError, 'bytes must be in range(0, 256)')
    P.assume(z3.ForAll([j], z3.Implies(z3.And(j >= 0, j < x.n), z3.And(x.at(j) >= 0, x.at(j) <= 255))))
    return x.copy(kind)


@model(bytearray)
def _bytearray(x=b'', *a):
    if isinstance(x, SSeq):
        if x.kind in ('bytes', 'bytearray'):
            return x.copy('bytearray')
        return seq_to_bytes(x, 'bytearray')
    if isinstance(x, (SInt, SBool)):
        n = as_int(x)
        if E.cur().branch(n < 0):
            raise_(ValueError, 'negative count')
        return SSeq(n, lambda i: z3.IntVal(0), 'bytearray')
    if isinstance(x, SStr):
        raise_(TypeError, 'string argument without an encoding')
    if isinstance(x, (list, tuple)) and V.is_symbolic(x):
        return seq_to_bytes(ops.as_seq(x), 'bytearray')
    if isinstance(x, SObj) and vector_items(x) is not None:
        return seq_to_bytes(vector_items(x), 'bytearray')
    if V.is_symbolic(x):
        raise E.Unsupported('bytearray(%s)' % type(x).__name__)
    return I.native(bytearray, [x] + list(a), {})


@model(int)
def _int(x=0, *a):
    if isinstance(x, SInt):
        return x
    if isinstance(x, SBool):
        return wrap_int(as_int(x))
    if isinstance(x, SEnum):
        return wrap_int(as_int(x))
    if isinstance(x, SRat):
        used('int(a / b) = truncated quotient (exact while |a| < 2**53)')
        num, den = x.num, x.den
        P = E.cur()
        if not P.entails(den > 0):
            raise E.Unsupported('int(a / b) with b not provably positive')
        return wrap_int(z3.If(num >= 0, num / den, -((-num) / den)))
    if V.is_symbolic(x):
        raise E.Unsupported('int(%s)' % type(x).__name__)
    return I.native(int, [x] + list(a), {})


@model(bool)
def _bool(x=False):
    if isinstance(x, SBool):
        return x
    if isinstance(x, SInt):
        return wrap_bool(x.e != 0)
    if isinstance(x, SSeq):
        return wrap_bool(x.n != 0)
    return ops.truth(x)


@model(isinstance)
def _isinstance(o, t):
    return I.isinstance_(o, t)


@model(issubclass)
def _issubclass(c, t):
    return issubclass(c, t)


@model(type)
def _type(o, *a):
    if a:
        return type(o, *a)
    return I.py_type_of(o)


@model(range)
def _range(*a):
    if not V.is_symbolic(list(a)):
        return I.native(range, list(a), {})
    vals = [as_int(x) for x in a]
    if len(vals) == 1:
        vals = [z3.IntVal(0), vals[0], z3.IntVal(1)]
    elif len(vals) == 2:
        vals.append(z3.IntVal(1))
    st = V.simp(vals[2])
    if not z3.is_int_value(st) or st.as_long() <= 0:
        raise E.Unsupported('range with symbolic or non-positive step')
    return loops.SRange(vals[0], vals[1], st.as_long())


@model(enumerate)
def _enumerate(x, start=0):
    if V.is_symbolic(x):
        return loops.SEnumerate(x, start)
    return list(enumerate(x, start))


@model(iter)
def _iter(x):
    if isinstance(x, loops.SFilter):
        return x
    if V.is_symbolic(x) and not isinstance(x, (list, tuple, dict)):
        return x
    if isinstance(x, (list, tuple)):
        return ListIter(list(x))
    return I.native(iter, [x], {})


class ListIter(object):
    def __init__(self, items):
        self.items, self.pos = items, 0

    def __iter__(self):
        return iter(self.items[self.pos:])


@model(next)
def _next(it, *default):
    if isinstance(it, loops.SFilter):
        found, val = it.first()
        if found:
            return val
        if default:
            return default[0]
        raise_(StopIteration)
    if isinstance(it, ListIter):
        if it.pos < len(it.items):
            it.pos += 1
            return it.items[it.pos - 1]
        if default:
            return default[0]
        raise_(StopIteration)
    if isinstance(it, SSeq):
        if E.cur().branch(it.n == 0):
            if default:
                return default[0]
            raise_(StopIteration)
        return I.seq_elem(it, z3.IntVal(0))
    if isinstance(it, list):
        # a generator expression is evaluated eagerly to a list by the interpreter (frame.ex_GeneratorExp): next() on
        # it is next() on the generator, i.e. its first element (a real list here would be a TypeError only in CPython
        # code that calls next() on a list literal, which the repository does not do)
        if it:
            return it[0]
        if default:
            return default[0]
        raise_(StopIteration)
    return I.native(next, [it] + list(default), {})


@model(list)
def _list(x=()):
    if isinstance(x, SSeq):
        return x.copy('list')
    if isinstance(x, SObj) and vector_items(x) is not None and isinstance(x.f.get('_items'), SSeq):
        return x.f['_items'].copy('list')
    if isinstance(x, SObj) and isinstance(x.f.get('_items'), list):
        from cryptoparser.common.base import ArrayBase
        if issubclass(x.cls, ArrayBase):
            used('iterating an ArrayBase object yields the elements of its _items in order (its __len__/__getitem__)')
            return list(x.f['_items'])
    if isinstance(x, (loops.SRange, loops.SEnumerate, SObj)):
        v = loops.iteration_view(x)
        if v[0] == 'concrete':
            return list(v[1])
        raise E.Unsupported('list() of symbolic-length iterable')
    if isinstance(x, ListIter):
        return list(x)
    return list(x)


@model(tuple)
def _tuple(x=()):
    if isinstance(x, SSeq):
        return x.copy('tuple')
    if isinstance(x, (loops.SRange, loops.SEnumerate, SObj)):
        v = loops.iteration_view(x)
        if v[0] == 'concrete':
            return tuple(v[1])
        raise E.Unsupported('tuple() of symbolic-length iterable')
    return tuple(x)


@model(map)
def _map(f, xs):
    view = loops.iteration_view(xs)
    if view[0] == 'concrete':
        return [I.call(f, [x], {}) for x in view[1]]
    _, n, elem = view
    P = E.cur()
    j = V.fresh_int('mj')
    with P.scope():
        P.assume(z3.And(j >= 0, j < n))
        try:
            v = I.call(f, [elem(j)], {})
        except E.PyRaise as pr:
            raise E.Unsupported('mapped function may raise %s' % pr.exc.cls.__name__)
    if isinstance(v, (SInt, int)) and not isinstance(v, bool):
        term = as_int(v)
        return SSeq(n, lambda i, term=term, j=j: z3.substitute(term, (j, V.iv(i))), 'list')
    raise E.Unsupported('map() producing %s over a symbolic-length iterable' % type(v).__name__)


@model(reversed)
def _reversed(x):
    if isinstance(x, SSeq):
        n = x.n
        return SSeq(n, lambda i, xat=x._at, n=n: xat(V.simp(n - 1 - V.iv(i))), 'list', x.elem)
    return list(reversed(x))


@model(ord)
def _ord(c):
    if isinstance(c, (SSeq, SStr)):
        s = c.seq if isinstance(c, SStr) else c
        if E.cur().branch(s.n != 1):
            raise_(TypeError, 'ord() expected a character')
        return wrap_int(s.at(z3.IntVal(0)))
    return I.native(ord, [c], {})


@model(min)
def _min(*a, **kw):
    if not V.is_symbolic(list(a)):
        return I.native(min, list(a), kw)
    if len(a) == 1:
        a = I.iterate_concrete(a[0])
    vals = [as_int(x) for x in a]
    r = vals[0]
    for v in vals[1:]:
        r = z3.If(v < r, v, r)
    return wrap_int(r)


@model(max)
def _max(*a, **kw):
    if not V.is_symbolic(list(a)):
        return I.native(max, list(a), kw)
    if len(a) == 1:
        a = I.iterate_concrete(a[0])
    vals = [as_int(x) for x in a]
    r = vals[0]
    for v in vals[1:]:
        r = z3.If(v > r, v, r)
    return wrap_int(r)


@model(getattr)
def _getattr(o, name, *default):
    try:
        return I.getattr_(o, name)
    except E.PyRaise as pr:
        if default and issubclass(pr.exc.cls, AttributeError):
            return default[0]
        raise


@model(hasattr)
def _hasattr(o, name):
    try:
        I.getattr_(o, name)
        return True
    except E.PyRaise as pr:
        if issubclass(pr.exc.cls, AttributeError):
            return False
        raise


@model(setattr)
def _setattr(o, name, v):
    return I.setattr_(o, name, v)


@model(str, six.text_type)
def _str(x='', *a):
    if isinstance(x, SStr):
        return x
    if isinstance(x, SObj):
        d = I.custom_dunder(x.cls, '__str__')
        if d is not None:
            return I.call(d, [x], {})
        raise E.Unsupported('str(object)')
    if isinstance(x, (SInt, SBool)):
        used('str(int) is kept as the decimal rendering of a symbolic integer inside a structured text (values.SText)')
        return V.SText([('int', as_int(x))])
    if V.is_symbolic(x):
        raise E.Unsupported('str(%s)' % type(x).__name__)
    return I.native(str, [x] + list(a), {})


@model(repr)
def _repr(x):
    if V.is_symbolic(x):
        return '<symbolic>'
    return repr(x)


@model(hex)
def _hex(x):
    if V.is_symbolic(x):
        return '<symbolic>'
    return hex(x)


@model(sorted)
def _sorted(x, **kw):
    if V.is_symbolic(x):
        raise E.Unsupported('sorted() of symbolic values')
    return I.native(sorted, [x], kw)


@model(all)
def _all(xs):
    for x in I.iterate_concrete(xs):
        if not ops.truth(x):
            return False
    return True


@model(any)
def _any(xs):
    for x in I.iterate_concrete(xs):
        if ops.truth(x):
            return True
    return False


@model(id)
def _id(x):
    return id(x)


@model(callable)
def _callable(x):
    return callable(x) or isinstance(x, (I.BoundMethod, I.Closure, I.MethodRef))


# ------------------------------------------------------------------------------------------------ struct
_FMT = {'B': 1, 'H': 2, 'I': 4, 'Q': 8}


def _parse_fmt(fmt):
    if len(fmt) != 2 or fmt[0] not in '<>!=' or fmt[1] not in _FMT:
        raise E.Unsupported('struct format %r' % fmt)
    used('struct.pack/unpack for formats [<>!=][BHIQ]: range check then positional bytes; "=" is little-endian on this host')
    return fmt[0], _FMT[fmt[1]]


@model(struct.pack)
def _pack(fmt, v):
    if not V.is_symbolic(v):
        return I.native(struct.pack, [fmt, v], {})
    order, w = _parse_fmt(fmt)
    if not ops.is_intlike(v):
        raise_(struct.error, 'required argument is not an integer')
    ve = as_int(v)
    if not E.cur().branch(z3.And(ve >= 0, ve < 256 ** w)):
        raise_(struct.error, 'argument out of range')
    from . import spec as _S
    digits = [_S.quot(ve, k) % 256 for k in range(w)]       # little-endian digits
    if order in '>!':
        digits = digits[::-1]
    return V.seq_of_terms(digits, 'bytes')


@model(struct.unpack)
def _unpack(fmt, b):
    if not V.is_symbolic(b):
        return I.native(struct.unpack, [fmt, b], {})
    order, w = _parse_fmt(fmt)
    if E.cur().branch(b.n != w):
        raise_(struct.error, 'unpack requires a buffer of %d bytes' % w)
    idx = range(w) if order in '>!' else range(w - 1, -1, -1)
    e = z3.IntVal(0)
    for k in idx:
        e = e * 256 + b.at(z3.IntVal(k))
    return (wrap_int(e),)


# ------------------------------------------------------------------------------------------------ six
@model(six.raise_from)
def _raise_from(exc, cause):
    if isinstance(exc, type):
        exc = I.construct(exc, [], {})
    if isinstance(exc, BaseException):
        exc = I.lift_exception(exc)
    raise E.PyRaise(exc)


@model(six.int2byte)
def _int2byte(x):
    if isinstance(x, (SInt, SBool)):
        e = as_int(x)
        if E.cur().branch(z3.Or(e < 0, e > 255)):
            raise_(struct.error, 'ubyte format requires 0 <= number <= 255')
        return V.seq_of_terms([e], 'bytes')
    return I.native(six.int2byte, [x], {})


@model(six.indexbytes)
def _indexbytes(buf, i):
    if V.is_symbolic(buf) or V.is_symbolic(i):
        from . import frame
        fr = frame.Frame(_indexbytes, {}, None)
        return fr.subscript(buf, i)
    return I.native(six.indexbytes, [buf, i], {})




# six.iterbytes is the builtin iter on Python 3: covered by the model of iter


def ascii_guard(seq, what):
    """UnicodeError fork for ascii: some byte >= 128"""
    P = E.cur()
    c = loops.concretize_count(seq.n)
    if c is not None:
        for k in range(c):
            if P.branch(seq.at(z3.IntVal(k)) >= 128):
                raise_(UnicodeDecodeError if what == 'decode' else UnicodeEncodeError, 'ascii')
        return
    j = z3.Int('j!q')
    w = V.fresh_int('nonascii')
    if P.choose('ascii'):
        P.assume(z3.And(w >= 0, w < seq.n, seq.at(w) >= 128))
        raise_(UnicodeDecodeError if what == 'decode' else UnicodeEncodeError, 'ascii')
    P.assume(z3.ForAll([j], z3.Implies(z3.And(j >= 0, j < seq.n), seq.at(j) < 128)))


def decode_seq(seq, encoding, errors='strict'):
    enc = (encoding or 'utf-8').lower().replace('_', '-')
    if enc in ('ascii', 'us-ascii'):
        ascii_guard(seq, 'decode')
        return SStr(seq.copy('bytes'), 'ascii')
    if enc == 'idna':
        # ToUnicode(ToASCII(label)) == label for a label in normal form (every ASCII label, every lower-case/NFKC Unicode
        # label): bytes that are provably the ToASCII image of a text seen on this path decode to that text
        P = E.cur()
        from . import vc
        if P.entails(seq.n == 0):
            return SStr(seq.copy('bytes'), 'ascii')            # b''.decode('idna') == '' (no label to convert)
        for src, out in list(P.__dict__.get('idna_memo', {}).values()):
            if P.entails(seq.n == out.n) and P.entails(z3.And(*[f for _, f in vc.goal_eq(seq.copy('bytes'), out.copy('bytes'))])):
                used('codec idna: decoding the ToASCII image of a label gives the label back (labels assumed in IDNA normal form)')
                return SStr(src, 'ascii')
    if enc in ('utf-8', 'utf8', 'idna', 'latin-1', 'latin1'):
        used('codec %s: decoding is a partial injective map on byte strings; UnicodeDecodeError possible for any input' % enc)
        if enc not in ('latin-1', 'latin1') and E.cur().choose('decode_error'):
            E.cur().overapprox.append('%s decode error (assumed raise-set)' % enc)
            if enc == 'idna' and E.cur().choose('plain UnicodeError'):
                # the idna codec reports malformed punycode labels with the base class UnicodeError
                raise_(UnicodeError, 'label empty or too long / invalid punycode')
            raise_(UnicodeDecodeError, enc)
        return SStr(seq.copy('bytes'), enc)
    raise E.Unsupported('codec %s' % encoding)


def idna_toascii(s, lookup_only=False):
    """text.encode('idna') (IDNA ToASCII) as an uninterpreted function of the text: the same text object always maps to
    the same byte string; UnicodeError (label empty or too long, disallowed code point) is possible for any text"""
    P = E.cur()
    memo = P.__dict__.setdefault('idna_memo', {})
    key = id(s.seq)
    if key in memo:
        return memo[key][1]
    if lookup_only:
        return None
    used('codec idna: ToASCII is an uninterpreted function of the text; UnicodeError possible for any text')
    if P.choose('idna_encode_error'):
        P.overapprox.append('idna encode error (assumed raise-set)')
        raise_(UnicodeError, 'label empty or too long')
    out, facts = V.base_seq('toascii', 'bytes')
    for f in facts:
        P.assume(f)
    # what the stdlib codec guarantees about its result: at most 63 octets per label (longer raises UnicodeError), all
    # ASCII, and empty exactly for the empty text
    j = z3.Int('j!q')
    P.assume(out.n <= 63)
    P.assume((out.n == 0) == (s.seq.n == 0))
    P.assume(z3.ForAll([j], z3.Implies(z3.And(j >= 0, j < out.n), out.at(j) < 128)))
    memo[key] = (s.seq, out)
    return out


def encode_str(s, encoding):
    enc = (encoding or 'utf-8').lower().replace('_', '-')
    if isinstance(s, SStr) and enc == 'idna':
        return idna_toascii(s)
    if isinstance(s, SStr):
        if s.enc == enc or (s.enc == 'ascii' and enc in ('utf-8', 'utf8', 'latin-1')):
            return s.seq.copy('bytes')
        if enc in ('ascii', 'us-ascii'):
            used('text decoded with %s re-encoded as ascii: UnicodeEncodeError possible' % s.enc)
            if E.cur().choose('encode_error'):
                E.cur().overapprox.append('%s encode error (assumed raise-set)' % enc)
                raise_(UnicodeEncodeError, enc)
            return s.seq.copy('bytes')
        raise E.Unsupported('re-encode %s text as %s' % (s.enc, enc))
    raise E.Unsupported('encode %s' % type(s).__name__)


@model(six.ensure_text)
def _ensure_text(s, encoding='utf-8', errors='strict'):
    if isinstance(s, SSeq):
        if s.kind == 'bytearray':
            raise_(TypeError, "not expecting type '<class 'bytearray'>'")
        return decode_seq(s, encoding)
    if isinstance(s, SStr):
        return s
    if V.is_symbolic(s):
        raise_(TypeError, 'not expecting type %s' % I.py_type_of(s).__name__)
    return I.native(six.ensure_text, [s, encoding, errors], {})


@model(six.ensure_binary)
def _ensure_binary(s, encoding='utf-8', errors='strict'):
    if isinstance(s, SSeq):
        if s.kind == 'bytes':
            return s
        raise_(TypeError, "not expecting type '%s'" % s.kind)
    if isinstance(s, SStr):
        return encode_str(s, encoding)
    if V.is_symbolic(s):
        raise_(TypeError, 'not expecting type %s' % I.py_type_of(s).__name__)
    return I.native(six.ensure_binary, [s, encoding, errors], {})


# ------------------------------------------------------------------------------------------------ attrs
@model(attr.validate)
def _validate(o):
    if isinstance(o, SObj):
        return I.validate_obj(o)
    return I.native(attr.validate, [o], {})


@model(attr.fields)
def _fields(c):
    return attr.fields(c)


# ------------------------------------------------------------------------------------------------ seq methods
def abstract_coded(sp, x):
    """code of an item as seen through the coded abstraction; sound only if the item is the canonical
    representative of its code (a fallback object must carry an unassigned code: checked, not assumed)"""
    import enum as _enum
    P = E.cur()
    if isinstance(x, V.SCoded) and x.spec.key() == sp.key():
        return x.code
    if sp.wrap_known is not None and isinstance(x, SObj) and x.cls is sp.wrap_known:
        inner = [v for v in x.f.values() if isinstance(v, (SEnum, _enum.Enum))]
        if len(inner) != 1:
            raise E.Unsupported('wrapped coded item with %d enum fields' % len(inner))
        x = inner[0]
    if isinstance(x, SEnum) and x.cls is sp.enum_cls:
        return V.enum_table(sp.enum_cls, x.idx, lambda m: m.value.code)
    if isinstance(x, _enum.Enum) and type(x) is sp.enum_cls:
        return z3.IntVal(x.value.code)
    if isinstance(x, _enum.Enum) and hasattr(x.value, 'code') and isinstance(x.value.code, int) \
            and hasattr(x.value, 'get_code_size') and x.value.get_code_size() == sp.width and not sp.wrap_known:
        # a member of another coded enumeration of the same width (the SCSV markers among cipher suites): it is viewed
        # through its code; composing it emits the same bytes as the fallback item carrying that code
        used('a coded-enum member of a foreign table inside a coded vector is abstracted to its code')
        return z3.IntVal(x.value.code)
    if sp.fallback_cls is not None and isinstance(x, SObj) and x.cls is sp.fallback_cls:
        c = as_int(x.f['code'])
        if not P.entails(z3.Not(sp.known(c))):
            raise E.Unsupported('fallback item whose code may be an assigned one cannot be viewed as a coded item')
        return c
    raise E.Unsupported('item of type %s in a coded sequence' % I.py_type_of(x).__name__)


def raw_term(s, x):
    """the term that represents value x as an element of the typed sequence s"""
    if isinstance(s.elem, tuple) and s.elem[0] == 'coded':
        return abstract_coded(s.elem[1], x)
    if s.elem == 'int':
        if not ops.is_intlike(x):
            raise E.Unsupported('element of type %s in an int sequence' % I.py_type_of(x).__name__)
        return as_int(x)
    if isinstance(s.elem, tuple) and s.elem[0] == 'enum':
        if not (isinstance(x, SEnum) and x.cls is s.elem[1]) and not isinstance(x, s.elem[1]):
            raise E.Unsupported('element of type %s in a sequence of %s' % (I.py_type_of(x).__name__, s.elem[1].__name__))
        return ops.enum_index(x)
    if s.elem == 'opaque':
        return x.term if isinstance(x, SAbs) and x.kind == 'opaque_item' else V.fresh_int('opaque')
    raise E.Unsupported('element of a %r sequence' % (s.elem,))


def typed_seq_of(s, values):
    """python list / SSeq of values as a sequence with the element kind of s"""
    if isinstance(values, SSeq):
        if values.elem == s.elem or (isinstance(values.elem, tuple) and isinstance(s.elem, tuple) and values.elem[0] == s.elem[0]):
            return values
        raise E.Unsupported('mixing %r and %r sequences' % (values.elem, s.elem))
    terms = [raw_term(s, x) for x in I.iterate_concrete(values)]
    out = V.seq_of_terms(terms, s.kind)
    out.elem = s.elem
    return out


@method_model('seq', 'append')
def _seq_append(s, x):
    if s.kind not in ('list', 'bytearray'):
        raise_(AttributeError, 'append')
    t = raw_term(s, x)
    nv = V.concat(s, V.seq_of_terms([t], s.kind), s.kind)
    s.set(nv.n, nv._at)


@method_model('seq', 'extend')
def _seq_extend(s, xs):
    nv = V.concat(s, typed_seq_of(s, xs) if s.elem != 'int' else ops.as_seq(xs), s.kind)
    s.set(nv.n, nv._at)


@method_model('seq', 'insert')
def _seq_insert(s, i, x):
    i = as_int(i)
    n = s.n
    pos = V.simp(z3.If(i < 0, z3.If(i + n < 0, z3.IntVal(0), i + n), z3.If(i > n, n, i)))
    head, tail = V.slice_seq(s, 0, pos), V.slice_seq(s, pos, None)
    nv = V.concat(V.concat(head, V.seq_of_terms([raw_term(s, x)], s.kind), s.kind), tail, s.kind)
    s.set(nv.n, nv._at)


@method_model('seq', 'reverse')
def _seq_reverse(s):
    if s.kind not in ('list', 'bytearray'):
        raise_(AttributeError, 'reverse')
    n, at = s.n, s._at
    s.set(n, lambda i, at=at, n=n: at(V.simp(n - 1 - V.iv(i))))


@method_model('seq', 'decode')
def _seq_decode(s, encoding='utf-8', errors='strict'):
    return decode_seq(s, encoding, errors)


@method_model('seq', 'lstrip')
def _seq_lstrip(s, chars=None):
    """strip of a single byte value: result = s[c:], c = number of leading bytes equal to it"""
    if not (isinstance(chars, (bytes, bytearray)) and len(chars) == 1):
        raise E.Unsupported('lstrip(%r)' % (chars,))
    used('bytes.lstrip(single byte): removes the maximal run of that byte at the start')
    P = E.cur()
    b = chars[0]
    c = V.fresh_int('lstrip')
    j = z3.Int('j!q')
    P.assume(z3.And(c >= 0, c <= s.n, z3.ForAll([j], z3.Implies(z3.And(j >= 0, j < c), s.at(j) == b)),
                    z3.Implies(c < s.n, s.at(c) != b)))
    return V.slice_seq(s, c, None)


@method_model('seq', 'rstrip')
def _seq_rstrip(s, chars=None):
    if not (isinstance(chars, (bytes, bytearray)) and len(chars) == 1):
        raise E.Unsupported('rstrip(%r)' % (chars,))
    used('bytes.rstrip(single byte): removes the maximal run of that byte at the end')
    P = E.cur()
    b = chars[0]
    c = V.fresh_int('rstrip')          # new length
    j = z3.Int('j!q')
    P.assume(z3.And(c >= 0, c <= s.n, z3.ForAll([j], z3.Implies(z3.And(j >= c, j < s.n), s.at(j) == b)),
                    z3.Implies(c > 0, s.at(c - 1) != b)))
    return V.slice_seq(s, 0, c)


@method_model('seq', 'join')
def _seq_join(sep, items):
    if isinstance(items, SSeq) and items.elem == 'byte1':
        if not (z3.is_int_value(sep.n) and sep.n.as_long() == 0):
            raise E.Unsupported('join of single bytes with a non-empty separator')
        return SSeq(items.n, items._at, sep.kind)
    view = loops.iteration_view(items)
    if view[0] != 'concrete':
        raise E.Unsupported('join over symbolic-length iterable')
    out = None
    for k, it in enumerate(view[1]):
        if not isinstance(it, (SSeq, bytes, bytearray)):
            raise_(TypeError, 'sequence item: expected a bytes-like object')
        piece = ops.as_seq(it)
        out = piece.copy(sep.kind) if out is None else V.concat(V.concat(out, sep, sep.kind), piece, sep.kind)
    return out if out is not None else V.conc_seq(b'', sep.kind)


@method_model('seq', 'endswith')
def _seq_endswith(s, suffix):
    suf = ops.as_seq(suffix)
    m = loops.concretize_count(suf.n)
    if m is None:
        raise E.Unsupported('endswith(symbolic-length suffix)')
    return wrap_bool(z3.And(s.n >= m, *[s.at(V.simp(s.n - m + k)) == suf.at(z3.IntVal(k)) for k in range(m)]))


@method_model('seq', 'startswith')
def _seq_startswith(s, prefix):
    pre = ops.as_seq(prefix)
    m = loops.concretize_count(pre.n)
    if m is None:
        raise E.Unsupported('startswith(symbolic-length prefix)')
    return wrap_bool(z3.And(s.n >= m, *[s.at(z3.IntVal(k)) == pre.at(z3.IntVal(k)) for k in range(m)]))


@method_model('seq', 'isdigit')
def _seq_isdigit(s):
    c = loops.concretize_count(s.n)
    if c is None:
        raise E.Unsupported('isdigit on symbolic-length bytes')
    if c == 0:
        return False
    return wrap_bool(z3.And(*[z3.And(s.at(z3.IntVal(k)) >= 48, s.at(z3.IntVal(k)) <= 57) for k in range(c)]))


@method_model('seq', 'hex')
def _seq_hex(s, *a):
    used('bytes.hex is an injective uninterpreted function')
    return SAbs('hex_of', ('seq', id(s)), str)


@method_model('seq', 'copy')
def _seq_copy(s):
    return s.copy()


@method_model('seq', 'pop')
def _seq_pop(s, i=-1):
    from . import frame
    fr = frame.Frame(_seq_pop, {}, None)
    v = fr.subscript(s, i)
    fr.del_subscript(s, i)
    return v


@method_model('str', 'encode')
def _str_encode(s, encoding='utf-8', errors='strict'):
    return encode_str(s, encoding)


@method_model('str', 'join')
def _str_join(s, items):
    from . import loops as _loops
    c = _loops.concretize_count(s.seq.n)
    if isinstance(items, SAbs):
        if c is None:
            raise E.Unsupported('str.join with a symbolic separator')
        sep0 = bytes(V.simp(s.seq.at(z3.IntVal(k))).as_long() for k in range(c)).decode('utf-8')
        return V.SText([('abs', ('join', sep0, items))])
    view = _loops.iteration_view(items)
    if view[0] != 'concrete':
        raise E.Unsupported('str.join over a symbolic-length iterable')
    if c is None:
        raise E.Unsupported('str.join with a symbolic separator')
    sep = bytes(V.simp(s.seq.at(z3.IntVal(k))).as_long() for k in range(c)).decode('utf-8')
    parts = []
    for k, it in enumerate(view[1]):
        if k:
            parts.append(('lit', sep))
        if isinstance(it, str):
            parts.append(('lit', it))
        elif isinstance(it, V.SText):
            parts.extend(it.parts)
        elif isinstance(it, SStr):
            parts.append(('text', it))
        elif isinstance(it, SAbs):
            parts.append(('abs', it))
        else:
            raise E.Unsupported('str.join of %s' % type(it).__name__)
    if all(kind == 'lit' for kind, _ in parts):
        return ''.join(v for _, v in parts)
    return V.SText(parts)


@method_model('str', 'lower')
def _str_lower(s):
    used('str.lower on ascii text: A-Z mapped to a-z bytewise')
    if s.enc != 'ascii':
        raise E.Unsupported('lower() on non-ascii text')
    q = s.seq
    return SStr(SSeq(q.n, lambda i, qat=q._at: (lambda c: z3.If(z3.And(c >= 65, c <= 90), c + 32, c))(qat(i)), 'bytes'), 'ascii')


@method_model('str', 'format')
def _str_format(s, *a, **k):
    raise E.Unsupported('format on symbolic text')


@method_model('int', 'bit_length')
def _int_bit_length(x):
    from . import specfun
    used('int.bit_length: 2**(bl-1) <= |v| < 2**bl, bl = 0 for v = 0')
    P = E.cur()
    v = as_int(x)
    # bit_length is a function of the value: the same term gets the same result on one path
    memo = P.__dict__.setdefault('bitlen_memo', [])
    for v0, bl0 in memo:
        if v0.eq(v):
            return wrap_int(bl0)
    bl = V.fresh_int('bitlen')
    memo.append((v, bl))
    a = z3.If(v < 0, -v, v)
    P.assume(bl >= 0)
    P.assume(z3.Implies(a == 0, bl == 0))
    p_hi = specfun.pow2_term(bl)
    p_lo = specfun.pow2_term(bl - 1)
    P.assume(z3.Implies(a > 0, z3.And(bl >= 1, p_lo <= a, a < p_hi, p_hi == 2 * p_lo, p_lo >= 1)))
    return wrap_int(bl)


@method_model('enumvalue', 'get_code_size')
def _ev_get_code_size(ev):
    ms = list(ev.cls)
    sizes = {m.value.get_code_size() for m in ms}
    if len(sizes) == 1:
        return sizes.pop()
    return wrap_int(V.enum_table(ev.cls, ev.idx, lambda m: m.value.get_code_size()))


@method_model('flags', 'copy')
def _flags_copy(s):
    return SFlags(s.cls, dict(s.bits))


# python containers holding symbolic values: only structure-level methods
for _name in ('append', 'insert', 'extend', 'items', 'keys', 'values', 'update', 'copy', 'reverse', 'clear',
              'setdefault', 'pop', 'get', 'add', '__iter__', '__len__'):
    for _kind in ('pylist', 'pydict', 'pyset'):
        def _mk(name):
            def m(obj, *a, **k):
                if V.is_symbolic(a[:1]) and name in ('pop', 'get', 'insert') and not (name == 'insert' and isinstance(a[0], int)):
                    if name == 'insert':
                        raise E.Unsupported('list.insert at symbolic index')
                    raise E.Unsupported('%s with symbolic key' % name)
                return I.native(getattr(obj, name), list(a), k)
            return m
        interp_key = (_kind, _name)
        I.METHOD_MODELS[interp_key] = _mk(_name)


# ------------------------------------------------------------------------------------------------ datetime
@model(datetime.datetime.utcfromtimestamp)
def _utcfromtimestamp(ts):
    if isinstance(ts, (SInt, SBool)):
        used('datetime.utcfromtimestamp(t): the naive-UTC instant t; ValueError for t outside [-62135596800, 253402300799]')
        t = as_int(ts)
        if E.cur().branch(z3.Or(t < -62135596800, t > 253402300799)):
            raise_(ValueError, 'year is out of range')
        return SDateTime(t, z3.IntVal(0), aware=False)
    return I.native(datetime.datetime.utcfromtimestamp, [ts], {})


@model(datetime.datetime.fromtimestamp)
def _fromtimestamp(ts, tz=None):
    if isinstance(ts, (SInt, SBool)):
        if tz is None:
            raise E.Unsupported('fromtimestamp without tz depends on the ambient time zone')
        used('datetime.fromtimestamp(t, UTC): the aware instant t; ValueError (year out of range) for t outside '
             '[-62135596800, 253402300799], OverflowError/OSError far beyond')
        t = as_int(ts)
        if E.cur().branch(z3.Or(t < -62135596800, t > 253402300799)):
            raise_(ValueError, 'year is out of range')
        return SDateTime(t, z3.IntVal(0), aware=True)
    return I.native(datetime.datetime.fromtimestamp, [ts] + ([tz] if tz is not None else []), {})


@model(datetime.timedelta)
def _timedelta(*a, **kw):
    if not V.is_symbolic([a, kw]):
        return I.native(datetime.timedelta, list(a), kw)
    if a:
        raise E.Unsupported('timedelta positional symbolic')
    mult = dict(days=86400 * 10 ** 6, seconds=10 ** 6, microseconds=1, milliseconds=1000, minutes=60 * 10 ** 6,
                hours=3600 * 10 ** 6, weeks=7 * 86400 * 10 ** 6)
    tot = z3.IntVal(0)
    for k, v in kw.items():
        tot = tot + as_int(v) * mult[k]
    return STimeDelta(V.simp(tot))


import calendar  # noqa: E402


@method_model('datetime', 'utctimetuple')
def _dt_utctimetuple(d):
    used('calendar.timegm(d.utctimetuple()) = whole epoch seconds of the instant d')
    return SAbs('utctimetuple', d.secs, tuple)


@method_model('datetime', 'timetuple')
def _dt_timetuple(d):
    # the wall-clock fields of the value in its own time zone: those of the instant secs + utcoffset
    return SAbs('timetuple', V.simp(d.secs + d.off), tuple)


@model(calendar.timegm)
def _timegm(tt):
    if isinstance(tt, SAbs) and tt.kind in ('utctimetuple', 'timetuple'):
        # timegm reads the fields as UTC: for utctimetuple() that is the instant itself, for timetuple() the instant
        # shifted by the value's UTC offset
        return wrap_int(tt.term)
    if isinstance(tt, SAbs):
        raise E.Unsupported('timegm of an unknown time tuple')
    return I.native(calendar.timegm, [tt], {})


# ------------------------------------------------------------------------------------------------ cryptodatahub
from cryptodatahub.common.types import CryptoDataEnumCodedBase, CryptoDataEnumBase  # noqa: E402
from cryptodatahub.common.exception import InvalidValue as _InvalidValue  # noqa: E402


def enum_first_index_by(cls, value_expr, keyfn):
    """(found: z3 Bool, idx: z3 Int) of the first member m of cls with keyfn(m) == value_expr"""
    ms = list(cls)
    keys = [keyfn(m) for m in ms]
    idx = z3.IntVal(-1)
    for k in range(len(ms) - 1, -1, -1):
        if isinstance(keys[k], int):
            idx = z3.If(value_expr == keys[k], z3.IntVal(k), idx)
    found = z3.Or(*[value_expr == kk for kk in keys if isinstance(kk, int)]) if keys else z3.BoolVal(False)
    return found, idx


@model(CryptoDataEnumCodedBase.from_code.__func__)
def _from_code(cls, code):
    if not V.is_symbolic(code):
        return I.native(cls.from_code, [code], {})
    used('cryptodatahub CryptoDataEnumCodedBase.from_code: first member whose value.code equals the argument, else InvalidValue')
    if isinstance(code, (SInt, SBool)):
        found, idx = enum_first_index_by(cls, as_int(code), lambda m: m.value.code)
        if E.cur().branch(found):
            return SEnum(cls, V.simp(idx))
        raise E.PyRaise(I.construct(_InvalidValue, [code, cls, 'code'], {}))
    if isinstance(code, SStr):
        P = E.cur()
        ms = list(cls)
        q = code.seq
        conds = []
        for m in ms:
            c = m.value.code
            if not isinstance(c, str):
                conds.append(z3.BoolVal(False))
                continue
            raw = c.encode('utf-8')
            conds.append(z3.And(q.n == len(raw), *[q.at(k) == raw[k] for k in range(len(raw))]))
        idx = z3.IntVal(-1)
        for k in range(len(ms) - 1, -1, -1):
            idx = z3.If(conds[k], z3.IntVal(k), idx)
        if P.branch(z3.Or(*conds)):
            idx = V.simp(idx)
            return ms[idx.as_long()] if z3.is_int_value(idx) else SEnum(cls, idx)
        raise E.PyRaise(I.construct(_InvalidValue, [code, cls, 'code'], {}))
    raise E.Unsupported('from_code(%s)' % type(code).__name__)


@model(dict)
def _dict(*a, **kw):
    if a and isinstance(a[0], SObj):
        from . import frame
        fr = frame.Frame(_dict, {}, None)
        out = dict(fr.mapping_items(a[0]))
        out.update(kw)
        return out
    return dict(*a, **kw)


@model(set)
def _set(x=()):
    if isinstance(x, SFlags):
        return SFlags(x.cls, dict(x.bits))
    if V.is_symbolic(x):
        raise E.Unsupported('set(%s)' % type(x).__name__)
    return set(x)


@model(frozenset)
def _frozenset(x=()):
    if isinstance(x, SFlags):
        return SFlags(x.cls, dict(x.bits))
    if V.is_symbolic(x):
        raise E.Unsupported('frozenset(%s)' % type(x).__name__)
    return frozenset(x)
