# pyvc.engine -- path exploration by re-execution under a decision list, obligations, solver access
import os
import time
import z3

from . import values as V

RLIMIT_BRANCH = 15_000_000      # z3 resource units per feasibility query (deterministic, not wall clock)
RLIMIT_GOAL = 60_000_000       # per obligation
SAFETY_TIMEOUT_MS = 30_000     # wall-clock cap per solver call (a query that hits it is 'unknown' = undecided)


class Unsupported(Exception):
    """construct or library call outside the supported subset: affected obligations are *undecided*"""


class PyRaise(Exception):
    """a Python exception travelling through interpreted code; exc is an SObj (cls = exception class)"""

    def __init__(self, exc):
        Exception.__init__(self)
        self.exc = exc


class PathEnd(Exception):
    """the current path was cut on purpose (after the obligations of an arbitrary loop iteration)"""


class Infeasible(Exception):
    pass


class Obligation(object):
    def __init__(self, name, kind, status, detail=None, model=None, where=None, seconds=0.0):
        self.name, self.kind, self.status, self.detail, self.model = name, kind, status, detail, model
        self.where, self.seconds = where, seconds

    def __repr__(self):
        return 'Obligation(%s,%s,%s)' % (self.name, self.kind, self.status)


STATS = dict(queries=0, solver_s=0.0, rlimit=0, cvc5_unsat=0, cvc5_unknown=0, cvc5_sat=0, cvc5_s=0.0)


class Path(object):
    def __init__(self, decisions):
        self.decisions = [list(d) for d in decisions]
        self.pos = 0
        self.pc = []
        self.solver = z3.Solver()
        self.solver.set('rlimit', RLIMIT_BRANCH)
        self.solver.set('timeout', SAFETY_TIMEOUT_MS)      # safety valve only; budgets are the rlimit values
        self.facts = []
        self.obligations = []
        self.steps = 0
        self.depth = 0
        self.max_depth = 0
        self.notes = []
        self.inputs = {}          # name -> symbolic value, for counterexample extraction
        self.overapprox = []      # external raise-sets taken on this path (over-approximations)
        self.pure = 0             # >0: inside a scope where real branching is not allowed

    # ---- solver
    def _flush_facts(self):
        for f in V.take_pending_facts():
            self.facts.append(f)
            self.solver.add(f)

    def _check(self, *assumptions, **kw):
        self._flush_facts()
        t = time.time()
        STATS['queries'] += 1
        rl = kw.get('rlimit')
        if rl:
            self.solver.set('rlimit', rl)
        try:
            r = self.solver.check(*assumptions)
        except z3.Z3Exception:
            r = z3.unknown
        if rl:
            self.solver.set('rlimit', RLIMIT_BRANCH)
        STATS['solver_s'] += time.time() - t
        return r

    def assume(self, c):
        if isinstance(c, bool):
            if not c:
                raise Infeasible()
            return
        self.pc.append(c)
        self.solver.add(c)

    def feasible(self, c):
        return self._check(c) != z3.unsat

    def entails(self, c, rlimit=None):
        """True iff pc |= c is established"""
        if isinstance(c, bool):
            return c
        return self._check(z3.Not(c), rlimit=rlimit) == z3.unsat

    def branch(self, cond):
        if isinstance(cond, bool):
            return cond
        c = z3.simplify(cond)
        if z3.is_true(c):
            return True
        if z3.is_false(c):
            return False
        if self.pos < len(self.decisions):
            d = self.decisions[self.pos][0]
        else:
            t = self.feasible(c)
            # the path so far is feasible, so if c is infeasible its negation must hold: no second query
            f = self.feasible(z3.Not(c)) if t else True
            if t and f and self.pure:
                raise Unsupported('branch inside a branch-free scope')
            if t and f:
                self.decisions.append([True, True])
                d = True
            elif t:
                self.decisions.append([True, False])
                d = True
            elif f:
                self.decisions.append([False, False])
                d = False
            else:
                raise Infeasible()
        self.pos += 1
        self.assume(c if d else z3.Not(c))
        return d

    def scope(self):
        return _Scope(self)

    def choose(self, tag='choice'):
        """nondeterministic boolean (both sides explored)"""
        return self.branch(V.fresh_bool(tag))

    # ---- obligations
    def oblige(self, name, goal, kind='post', where=None):
        t = time.time()
        if isinstance(goal, bool):
            st, model = ('proved', None) if goal else ('failed', None)
        else:
            r = self._check(z3.Not(goal), rlimit=RLIMIT_GOAL)
            model = None
            if r == z3.unsat:
                st = 'proved'
            elif r == z3.sat:
                st = 'failed'
                try:
                    model = self.solver.model()
                except z3.Z3Exception:
                    model = None
            else:
                st = 'unknown'
        second = None
        if st == 'proved' and not isinstance(goal, bool):
            second = self._second_opinion(name, goal)
            if second == 'sat':
                st = 'unknown'                   # the two solvers disagree: undecided, never a violation
        ob = Obligation(name, kind, st, model=model, where=where, seconds=time.time() - t)
        if second == 'sat':
            ob.detail = dict(reason='z3 answers unsat, cvc5 answers sat on the same query')
        elif st != 'proved':
            ob.detail = dict(pc_size=len(self.pc))
            if model is not None:
                ob.detail['inputs'] = self.concretize_inputs(model)
        self.obligations.append(ob)
        return st == 'proved'

    def _second_opinion(self, name, goal):
        """thorough tier: every VERIF_CVC5_SAMPLE-th discharged obligation is re-checked by /usr/bin/cvc5 on the SMT-LIB text
        of the same query (path condition + negated goal); returns 'unsat' | 'sat' | 'unknown' | None (not sampled)"""
        n = int(os.environ.get('VERIF_CVC5_SAMPLE', '0') or 0)
        if n <= 0:
            return None
        self._second_count = getattr(self, '_second_count', 0) + 1
        import zlib
        if (zlib.crc32(name.encode()) + self._second_count) % n:
            return None
        import subprocess
        import tempfile
        t = time.time()
        try:
            s2 = z3.Solver()
            s2.add(*self.solver.assertions())
            s2.add(z3.Not(goal))
            text = '(set-logic ALL)\n' + s2.to_smt2()
            with tempfile.NamedTemporaryFile('w', suffix='.smt2', delete=False) as f:
                f.write(text)
                path = f.name
            try:
                p = subprocess.run(['/usr/bin/cvc5', '--lang=smt2', '--tlimit=10000', path], capture_output=True, text=True, timeout=20)
                out = (p.stdout or '').strip().splitlines()
                r = out[0].strip() if out else 'unknown'
            finally:
                os.unlink(path)
        except Exception:
            r = 'unknown'
        if r not in ('unsat', 'sat'):
            r = 'unknown'
        STATS['cvc5_' + r] += 1
        STATS['cvc5_s'] += time.time() - t
        return r

    def concretize_inputs(self, model):
        out = {}
        for name, val in self.inputs.items():
            try:
                out[name] = concretize(val, model)
            except Exception as e:      # pragma: no cover
                out[name] = '<%s>' % e
        return out


class _Scope(object):
    """temporary assumptions (solver push/pop); branching inside must be decided by the path condition"""

    def __init__(self, path):
        self.path = path

    def __enter__(self):
        self.path._flush_facts()
        self.path.solver.push()
        self.n = len(self.path.pc)
        self.nf = len(self.path.facts)
        self.path.pure += 1
        return self

    def __exit__(self, *a):
        self.path.pure -= 1
        self.path._flush_facts()
        del self.path.pc[self.n:]
        self.path.solver.pop()
        for f in self.path.facts[self.nf:]:       # universally valid range facts: keep them outside the scope
            self.path.solver.add(f)
        return False


def concretize(val, model, max_len=600):
    """symbolic value -> concrete python value under a model (for replay)"""
    def ev(e):
        r = model.eval(e, model_completion=True)
        return r.as_long() if z3.is_int_value(r) else (z3.is_true(r) if z3.is_bool(r) else str(r))
    if isinstance(val, V.SInt):
        return ev(val.e)
    if isinstance(val, V.SBool):
        return ev(val.e)
    if isinstance(val, V.SSeq):
        n = ev(val.n)
        if not isinstance(n, int) or n < 0:
            return None
        if n > max_len:
            return dict(kind=val.kind, length=n, note='too long to list')
        items = [ev(val.at(z3.IntVal(k))) for k in range(n)]
        if val.kind in ('bytes', 'bytearray'):
            items = [x % 256 if isinstance(x, int) else 0 for x in items]
            return dict(kind=val.kind, hex=bytes(items).hex(), length=n)
        return dict(kind=val.kind, items=items, length=n)
    if isinstance(val, V.SEnum):
        idx = ev(val.idx)
        ms = list(val.cls)
        return dict(enum=val.cls.__name__, member=ms[idx].name if isinstance(idx, int) and 0 <= idx < len(ms) else idx)
    if isinstance(val, V.SObj):
        return dict(cls=val.cls.__name__, fields={k: concretize(v, model) for k, v in val.f.items()})
    if isinstance(val, V.SStr):
        return dict(str=concretize(val.seq, model))
    if isinstance(val, V.SFlags):
        return dict(flags=val.cls.__name__, members=[m.name for m, b in val.bits.items() if ev(b) is True])
    if isinstance(val, V.SDateTime):
        return dict(datetime=ev(val.secs), micros=ev(val.micros), aware=bool(val.aware), utcoffset=ev(val.off))
    if isinstance(val, (list, tuple)):
        return [concretize(x, model) for x in val]
    if isinstance(val, dict):
        return {str(k): concretize(x, model) for k, x in val.items()}
    if isinstance(val, (int, str, bool, type(None))):
        return val
    if isinstance(val, (bytes, bytearray)):
        return dict(kind=type(val).__name__, hex=bytes(val).hex(), length=len(val))
    return repr(val)


P = None      # the current path


def cur():
    return P


class PathResult(object):
    def __init__(self, path, kind, value):
        self.path, self.kind, self.value = path, kind, value     # kind: 'ret' | 'raise' | 'end' | 'unsupported'


def _cheap_entails(f):
    p = P
    if p is None:
        return False
    p._flush_facts()
    p.solver.set('rlimit', 2_000_000)
    STATS['queries'] += 1
    t = time.time()
    try:
        r = p.solver.check(z3.Not(f))
    except z3.Z3Exception:
        r = z3.unknown
    STATS['solver_s'] += time.time() - t
    p.solver.set('rlimit', RLIMIT_BRANCH)
    return r == z3.unsat


V.ENTAILS = _cheap_entails


def explore(thunk, max_paths=20000):
    """depth-first over decision lists; thunk is re-executed for every path"""
    global P
    stack = [[]]
    count = 0
    while stack:
        dec = stack.pop()
        P = Path(dec)
        try:
            res = PathResult(P, 'ret', thunk())
        except PyRaise as pr:
            res = PathResult(P, 'raise', pr.exc)
        except PathEnd:
            res = PathResult(P, 'end', None)
        except Infeasible:
            res = None
        except Unsupported as u:
            res = PathResult(P, 'unsupported', str(u))
        except RecursionError:
            res = PathResult(P, 'unsupported', 'interpreter recursion limit')
        for k in range(len(dec), len(P.decisions)):
            d, alt = P.decisions[k]
            if alt:
                stack.append([list(x) for x in P.decisions[:k]] + [[not d, False]])
        if res is not None:
            count += 1
            yield res
            if count >= max_paths:
                yield PathResult(P, 'unsupported', 'path budget %d exhausted' % max_paths)
                return
