# pyvc.ops -- Python operators on symbolic values (arithmetic, comparison, truth, equality)
import ast
import enum
import operator

import z3

from . import values as V
from . import engine as E
from .values import SInt, SBool, SSeq, SStr, SEnum, SObj, SFlags, SRat, SDateTime, STimeDelta, SAbs, iv, simp

_PYOPS = {ast.Add: operator.add, ast.Sub: operator.sub, ast.Mult: operator.mul, ast.Pow: operator.pow,
          ast.FloorDiv: operator.floordiv, ast.Mod: operator.mod, ast.BitOr: operator.or_, ast.BitAnd: operator.and_,
          ast.LShift: operator.lshift, ast.RShift: operator.rshift, ast.Div: operator.truediv,
          ast.BitXor: operator.xor}
_PYCMP = {ast.Lt: operator.lt, ast.LtE: operator.le, ast.Gt: operator.gt, ast.GtE: operator.ge, ast.Eq: operator.eq,
          ast.NotEq: operator.ne, ast.Is: operator.is_, ast.IsNot: operator.is_not}


def mk_exc(cls, *args, **fields):
    o = SObj(cls)
    o.f['args'] = tuple(args)
    o.f.update(fields)
    return o


def raise_(cls, *args, **fields):
    raise E.PyRaise(mk_exc(cls, *args, **fields))


def is_intlike(x):
    return isinstance(x, (SInt, SBool)) or (isinstance(x, SEnum) and issubclass(x.cls, int)) or \
        (isinstance(x, int) and not isinstance(x, enum.Enum)) or isinstance(x, enum.IntEnum)


def as_int(x):
    """value -> z3 Int expr"""
    if isinstance(x, SInt):
        return x.e
    if isinstance(x, SBool):
        return z3.If(x.e, z3.IntVal(1), z3.IntVal(0))
    if isinstance(x, SEnum):
        if issubclass(x.cls, int):
            return V.enum_table(x.cls, x.idx, lambda m: int(m.value))
        raise E.Unsupported('arithmetic on non-int enum %s' % x.cls.__name__)
    if isinstance(x, bool):
        return z3.IntVal(int(x))
    if isinstance(x, int):
        return z3.IntVal(int(x))
    raise E.Unsupported('as_int(%r)' % type(x).__name__)


def wrap_int(e):
    e = simp(e)
    if z3.is_int_value(e):
        return e.as_long()
    return SInt(e)


def wrap_bool(e):
    if isinstance(e, bool):
        return e
    e = simp(e)
    if z3.is_true(e):
        return True
    if z3.is_false(e):
        return False
    return SBool(e)


def as_seq(x):
    if isinstance(x, SSeq):
        return x
    if isinstance(x, (bytes, bytearray)):
        return V.conc_seq(x, 'bytearray' if isinstance(x, bytearray) else 'bytes')
    if isinstance(x, (list, tuple)) and all(is_intlike(e) for e in x):
        return V.conc_seq([as_int(e) for e in x], 'list' if isinstance(x, list) else 'tuple')
    raise E.Unsupported('as_seq(%r)' % type(x).__name__)


def seq_kind_of(x):
    if isinstance(x, SSeq):
        return x.kind
    return {bytes: 'bytes', bytearray: 'bytearray', list: 'list', tuple: 'tuple'}[type(x)]


def try_concrete_seq(x):
    """SSeq with concrete length and concrete elements -> python value, else None"""
    if not isinstance(x, SSeq) or not z3.is_int_value(x.n) or x.elem != 'int':
        return None
    n = x.n.as_long()
    if n > 4096:
        return None
    out = []
    for k in range(n):
        e = simp(x.at(z3.IntVal(k)))
        if not z3.is_int_value(e):
            return None
        out.append(e.as_long())
    return {'bytes': bytes, 'bytearray': bytearray, 'list': list, 'tuple': tuple}[x.kind](out)


def pow2_mask(m):
    """m = ((1<<w)-1) << lo  ->  (lo, w) or None"""
    if m <= 0:
        return None
    lo = (m & -m).bit_length() - 1
    run = m >> lo
    if run & (run + 1):
        return None
    return lo, run.bit_length()


def binop(op, l, r):
    P = E.cur()
    # ---- sequences
    if isinstance(l, (SSeq, SStr)) or isinstance(r, (SSeq, SStr)):
        if isinstance(l, SStr) or isinstance(r, SStr):
            if op is ast.Add:
                ls = l if isinstance(l, SStr) else SStr(V.conc_seq(l.encode('ascii')))
                rs = r if isinstance(r, SStr) else SStr(V.conc_seq(r.encode('ascii')))
                return SStr(V.concat(ls.seq, rs.seq), ls.enc)
            raise E.Unsupported('str op %s' % op.__name__)
        if op is ast.Add:
            if isinstance(l, (list, tuple)) and not all(is_intlike(e) for e in l):
                raise E.Unsupported('list + symbolic seq')
            ls, rs = as_seq(l), as_seq(r)
            if seq_kind_of(l) in ('bytes', 'bytearray') and seq_kind_of(r) not in ('bytes', 'bytearray'):
                raise_(TypeError, 'concat bytes with %s' % seq_kind_of(r))
            if seq_kind_of(l) in ('list',) and seq_kind_of(r) not in ('list',):
                raise_(TypeError, 'concat list with %s' % seq_kind_of(r))
            return V.concat(ls, rs, seq_kind_of(l))
        if op is ast.Mult:
            if isinstance(l, SSeq) and is_intlike(r):
                return V.repeat_seq(l, as_int(r))
            if isinstance(r, SSeq) and is_intlike(l):
                return V.repeat_seq(r, as_int(l))
        raise E.Unsupported('seq op %s' % op.__name__)
    if isinstance(l, (bytes, bytearray, list, tuple, str)) and op is ast.Mult and isinstance(r, (SInt, SBool)):
        if isinstance(l, (bytes, bytearray)) or (isinstance(l, (list, tuple)) and all(is_intlike(e) for e in l)):
            return V.repeat_seq(as_seq(l), as_int(r))
        raise E.Unsupported('repeat of %s' % type(l).__name__)
    if isinstance(r, (bytes, bytearray)) and op is ast.Mult and isinstance(l, (SInt, SBool)):
        return V.repeat_seq(as_seq(r), as_int(l))
    # ---- flag sets
    if isinstance(l, SFlags) or isinstance(r, SFlags):
        return flags_binop(op, l, r)
    # ---- datetime
    if isinstance(l, SDateTime) and isinstance(r, (STimeDelta,)) and op in (ast.Add, ast.Sub):
        tot = l.secs * 1000000 + l.micros + (r.micros if op is ast.Add else -r.micros)
        return SDateTime(simp(tot / 1000000), simp(tot % 1000000), l.aware)
    # ---- integers
    sym = isinstance(l, (SInt, SBool, SEnum)) or isinstance(r, (SInt, SBool, SEnum))
    if sym and is_intlike(l) and is_intlike(r):
        a, b = as_int(l), as_int(r)
        if op is ast.Add:
            return wrap_int(a + b)
        if op is ast.Sub:
            return wrap_int(a - b)
        if op is ast.Mult:
            return wrap_int(a * b)
        if op in (ast.FloorDiv, ast.Mod):
            bs = simp(b)
            if z3.is_int_value(bs):
                c = bs.as_long()
                if c == 0:
                    raise_(ZeroDivisionError)
                if c > 0:
                    return wrap_int(a / b if op is ast.FloorDiv else a % b)
                # python floor semantics for negative divisor: a // c = -((-a... use identity via positive divisor
                q = -((a + (-c) - 1) / (-c)) if False else None
                raise E.Unsupported('negative constant divisor')
            if P.branch(b == 0):
                raise_(ZeroDivisionError)
            if not P.entails(b > 0):
                raise E.Unsupported('division by possibly negative symbolic divisor')
            return wrap_int(a / b if op is ast.FloorDiv else a % b)
        if op is ast.Div:
            if P.branch(b == 0):
                raise_(ZeroDivisionError)
            return SRat(a, b)
        if op in (ast.LShift, ast.RShift):
            bs = simp(b)
            if z3.is_int_value(bs):
                c = bs.as_long()
                if c < 0:
                    raise_(ValueError, 'negative shift count')
                return wrap_int(a * (2 ** c) if op is ast.LShift else a / (2 ** c))
            from . import specfun
            if P.branch(b < 0):
                raise_(ValueError, 'negative shift count')
            p = specfun.pow2(b)
            return wrap_int(a * p if op is ast.LShift else a / p)
        if op is ast.BitAnd:
            for m, x in ((r, a), (l, b)):
                if isinstance(m, int) and not isinstance(m, bool):
                    mm = pow2_mask(int(m))
                    if int(m) == 0:
                        return 0
                    if mm is not None:
                        lo, w = mm
                        # exact for all integers (two's complement): bits lo..lo+w-1 of x
                        return wrap_int(((x / (2 ** lo)) % (2 ** w)) * (2 ** lo))
                    # general constant mask: sum over runs
                    total = z3.IntVal(0)
                    mv = int(m)
                    if mv < 0:
                        raise E.Unsupported('negative mask')
                    bit = 0
                    while mv:
                        if mv & 1:
                            total = total + ((x / (2 ** bit)) % 2) * (2 ** bit)
                        mv >>= 1
                        bit += 1
                    return wrap_int(total)
            from . import specfun
            return wrap_int(specfun.bitand(a, b))
        if op is ast.BitOr:
            for m, x in ((r, a), (l, b)):
                if isinstance(m, int) and not isinstance(m, bool):
                    mv = int(m)
                    if mv == 0:
                        return wrap_int(x)
                    if mv < 0:
                        raise E.Unsupported('negative | mask')
                    total = x
                    bit = 0
                    while mv:
                        if mv & 1:
                            total = total + (1 - (x / (2 ** bit)) % 2) * (2 ** bit)
                        mv >>= 1
                        bit += 1
                    return wrap_int(total)
            # symbolic | symbolic : sound only when bit-disjoint is provable; use the specfun
            from . import specfun
            return wrap_int(specfun.bitor(a, b))
        if op is ast.Pow:
            bs, as_ = simp(b), simp(a)
            if z3.is_int_value(bs) and bs.as_long() >= 0:
                e = z3.IntVal(1)
                for _ in range(bs.as_long()):
                    e = e * a
                return wrap_int(e)
            if z3.is_int_value(as_) and as_.as_long() == 2:
                from . import specfun
                if P.branch(b < 0):
                    raise E.Unsupported('2 ** negative')
                return wrap_int(specfun.pow2(b))
            raise E.Unsupported('symbolic power')
        raise E.Unsupported('int op %s' % op.__name__)
    if isinstance(l, STimeDelta) or isinstance(r, STimeDelta):
        raise E.Unsupported('timedelta arithmetic')
    if V.is_symbolic(l) or V.is_symbolic(r):
        raise E.Unsupported('binop %s on %s, %s' % (op.__name__, type(l).__name__, type(r).__name__))
    try:
        return _PYOPS[op](l, r)
    except E.PyRaise:
        raise
    except Exception as e:  # python-level error of a concrete operation is a real exception of the program
        raise E.PyRaise(mk_exc(type(e), *e.args))


def flags_binop(op, l, r):
    if op is ast.BitOr and isinstance(l, SFlags) and isinstance(r, SFlags) and l.cls is r.cls:
        return SFlags(l.cls, {m: z3.Or(l.bits[m], r.bits[m]) for m in l.bits})
    raise E.Unsupported('flag set operation')


def enum_index(x):
    """z3 index term of an enum member (symbolic or concrete)"""
    if isinstance(x, SEnum):
        return x.idx
    return z3.IntVal(list(type(x)).index(x))


def eq_values(l, r):
    """Python == ; returns bool or SBool"""
    P = E.cur()
    if l is r and not isinstance(l, (SInt, SRat)):
        return True
    if isinstance(l, V.SCoded) or isinstance(r, V.SCoded):
        from . import interp
        if isinstance(l, V.SCoded) and isinstance(r, V.SCoded) and l.spec.key() == r.spec.key():
            return wrap_bool(l.code == r.code)
        a = interp.materialize(l) if isinstance(l, V.SCoded) else l
        b = interp.materialize(r) if isinstance(r, V.SCoded) else r
        return eq_values(a, b)
    if isinstance(l, SObj) or isinstance(r, SObj):
        from . import interp
        return interp.obj_eq(l, r)
    if isinstance(l, (SEnum,)) or isinstance(r, (SEnum,)):
        if isinstance(l, SEnum) and isinstance(r, SEnum):
            if l.cls is r.cls:
                return wrap_bool(l.idx == r.idx)
        other, me = (r, l) if isinstance(l, SEnum) else (l, r)
        if isinstance(other, enum.Enum) and type(other) is me.cls:
            # aliases: list(cls) holds canonical members only; an alias *is* the canonical member
            return wrap_bool(me.idx == list(me.cls).index(other))
        if issubclass(me.cls, int) and is_intlike(other):
            return wrap_bool(as_int(me) == as_int(other))
        if isinstance(other, (SEnum, enum.Enum)):
            return False
        if other is None or isinstance(other, (str, bytes)):
            return False
        raise E.Unsupported('enum == %s' % type(other).__name__)
    if is_intlike(l) and is_intlike(r):
        if isinstance(l, (SInt, SBool)) or isinstance(r, (SInt, SBool)):
            return wrap_bool(as_int(l) == as_int(r))
        return l == r
    if isinstance(l, (SSeq, SStr)) or isinstance(r, (SSeq, SStr)):
        return seq_eq_prog(l, r)
    if isinstance(l, SFlags) or isinstance(r, SFlags):
        if isinstance(l, SFlags) and isinstance(r, SFlags) and l.cls is r.cls:
            return wrap_bool(z3.And(*[l.bits[m] == r.bits[m] for m in l.bits]))
        sf, other = (l, r) if isinstance(l, SFlags) else (r, l)
        if isinstance(other, (set, frozenset, list, tuple)) and any(V.is_symbolic(x) for x in other):
            # a native collection that holds symbolic members cannot be compared member by member
            raise E.Unsupported('comparison of a symbolic flag set with a collection of symbolic members')
        if isinstance(other, (set, frozenset)):
            return wrap_bool(z3.And(*[sf.bits[m] == z3.BoolVal(m in other) for m in sf.bits]))
        return False
    import datetime as _dt
    if (isinstance(l, SDateTime) and isinstance(r, _dt.datetime)) or (isinstance(r, SDateTime) and isinstance(l, _dt.datetime)):
        import calendar
        sd, nd = (l, r) if isinstance(l, SDateTime) else (r, l)
        if bool(sd.aware) != (nd.tzinfo is not None):
            return False
        return wrap_bool(z3.And(sd.secs == calendar.timegm(nd.utctimetuple()), sd.micros == nd.microsecond))
    if isinstance(l, SDateTime) and isinstance(r, SDateTime):
        if bool(l.aware) != bool(r.aware):
            return False                       # a naive and an aware datetime never compare equal
        return wrap_bool(z3.And(l.secs == r.secs, l.micros == r.micros))
    if isinstance(l, SAbs) and isinstance(r, SAbs) and l.kind == r.kind:
        return wrap_bool(l.term == r.term)
    if l is None or r is None:
        return l is r
    if isinstance(l, (list, tuple)) and isinstance(r, (list, tuple)) and (V.is_symbolic(l) or V.is_symbolic(r)):
        if type(l) is not type(r) or len(l) != len(r):
            return False
        acc = True
        for a, b in zip(l, r):
            acc = and_values(acc, eq_values(a, b))
            if acc is False:
                return False
        return acc
    if V.is_symbolic(l) or V.is_symbolic(r):
        if isinstance(l, (SInt, SBool)) or isinstance(r, (SInt, SBool)):
            return False        # int vs non-int
        raise E.Unsupported('== on %s, %s' % (type(l).__name__, type(r).__name__))
    return l == r


def and_values(a, b):
    if a is True:
        return b
    if b is True:
        return a
    if a is False or b is False:
        return False
    return wrap_bool(z3.And(a.e, b.e))


def bool_expr(b):
    return b.e if isinstance(b, SBool) else z3.BoolVal(bool(b))


def seq_eq_prog(l, r):
    """== between sequences inside the program: decided structurally when one side has concrete length"""
    if isinstance(l, SStr) or isinstance(r, SStr):
        if isinstance(l, SStr) and isinstance(r, str):
            l, r = l.seq, V.conc_seq(r.encode(l.enc))
        elif isinstance(r, SStr) and isinstance(l, str):
            l, r = V.conc_seq(l.encode(r.enc)), r.seq
        elif isinstance(l, SStr) and isinstance(r, SStr):
            l, r = l.seq, r.seq
        else:
            return False
    else:
        def fam(x):
            k = seq_kind_of(x) if isinstance(x, (SSeq, bytes, bytearray, list, tuple)) else None
            return 'b' if k in ('bytes', 'bytearray') else k
        if fam(l) != fam(r):
            return False
        if isinstance(l, (list, tuple)) and not all(is_intlike(e) for e in l):
            return False if not isinstance(r, SSeq) else _raise_unsup('list == seq')
        if isinstance(r, (list, tuple)) and not all(is_intlike(e) for e in r):
            return False if not isinstance(l, SSeq) else _raise_unsup('list == seq')
        l, r = as_seq(l), as_seq(r)
    for a, b in ((l, r), (r, l)):
        if z3.is_int_value(a.n):
            n = a.n.as_long()
            return wrap_bool(z3.And(b.n == n, *[a.at(z3.IntVal(k)) == b.at(z3.IntVal(k)) for k in range(n)]))
    # both symbolic length: an abstract predicate with the two directions it supports
    from . import specfun
    return wrap_bool(specfun.seq_equal_pred(l, r))


def _raise_unsup(msg):
    raise E.Unsupported(msg)


def compare(op, l, r):
    P = E.cur()
    if op in (ast.Is, ast.IsNot):
        if isinstance(l, SEnum) or isinstance(r, SEnum):
            res = eq_values(l, r)
        elif isinstance(l, (SInt, SBool, SSeq, SStr)) or isinstance(r, (SInt, SBool, SSeq, SStr)):
            res = l is r
        else:
            res = l is r
        return res if op is ast.Is else not_value(res)
    if op is ast.Eq:
        return eq_values(l, r)
    if op is ast.NotEq:
        return not_value(eq_values(l, r))
    if op in (ast.In, ast.NotIn):
        res = contains(r, l)
        return res if op is ast.In else not_value(res)
    if isinstance(l, SObj) or isinstance(r, SObj):
        from . import interp
        return interp.obj_order(op, l, r)
    if is_intlike(l) and is_intlike(r) and (V.is_symbolic(l) or V.is_symbolic(r)):
        a, b = as_int(l), as_int(r)
        return wrap_bool({ast.Lt: a < b, ast.LtE: a <= b, ast.Gt: a > b, ast.GtE: a >= b}[op])
    if isinstance(l, SDateTime) and isinstance(r, SDateTime):
        a, b = l.secs * 1000000 + l.micros, r.secs * 1000000 + r.micros
        return wrap_bool({ast.Lt: a < b, ast.LtE: a <= b, ast.Gt: a > b, ast.GtE: a >= b}[op])
    if isinstance(l, (tuple, list)) and isinstance(r, (tuple, list)) and type(l) is type(r) and \
            (V.is_symbolic(l) or V.is_symbolic(r)):
        return lex_compare(op, list(l), list(r))
    if V.is_symbolic(l) or V.is_symbolic(r):
        raise E.Unsupported('compare %s on %s, %s' % (op.__name__, type(l).__name__, type(r).__name__))
    try:
        return _PYCMP[op](l, r)
    except Exception as e:
        raise E.PyRaise(mk_exc(type(e), *e.args))


def lex_compare(op, l, r):
    """lexicographic order of equal-type sequences of comparable elements (Python's tuple/list ordering)"""
    strict = op in (ast.Lt, ast.Gt)
    if op in (ast.Gt, ast.GtE):
        l, r = r, l
    # l < r (or <=)
    acc = z3.BoolVal(len(l) < len(r)) if strict else z3.BoolVal(len(l) <= len(r))     # all common elements equal
    for a, b in reversed(list(zip(l, r))):
        lt = bool_expr(compare(ast.Lt, a, b))
        eq = bool_expr(eq_values(a, b))
        acc = z3.Or(lt, z3.And(eq, acc))
    return wrap_bool(acc)


def not_value(v):
    if isinstance(v, SBool):
        return wrap_bool(z3.Not(v.e))
    return not v


def contains(container, item):
    if isinstance(container, SFlags):
        if isinstance(item, enum.Enum) and item in container.bits:
            return wrap_bool(container.bits[item])
        if isinstance(item, SEnum):
            ms = list(item.cls)
            return wrap_bool(z3.Or(*[z3.And(item.idx == k, container.bits[m]) for k, m in enumerate(ms)
                                     if m in container.bits]))
        return False
    if isinstance(container, (list, tuple, set, frozenset)) or (isinstance(container, dict)) or \
            (isinstance(container, type) and issubclass(container, enum.Enum)):
        elems = list(container)
        if not V.is_symbolic(item) and not V.is_symbolic(elems):
            try:
                return item in container
            except TypeError:
                return False
        acc = False
        for e in elems:
            c = eq_values(item, e)
            if c is True:
                return True
            if c is False:
                continue
            acc = c if acc is False else wrap_bool(z3.Or(acc.e, c.e))
        return acc
    if isinstance(container, (filter, map, zip)) or type(container).__name__ in ('dict_keys', 'dict_values', 'generator'):
        return contains(list(container), item)
    if isinstance(container, (SSeq, bytes, bytearray)):
        cs = as_seq(container)
        if isinstance(item, (SSeq, bytes, bytearray)):
            it = as_seq(item)
            if z3.is_int_value(it.n) and z3.is_int_value(cs.n):
                m, n = it.n.as_long(), cs.n.as_long()
                if m == 0:
                    return True
                alts = []
                for s in range(0, n - m + 1):
                    alts.append(z3.And(*[cs.at(z3.IntVal(s + k)) == it.at(z3.IntVal(k)) for k in range(m)]))
                return wrap_bool(z3.Or(*alts)) if alts else False
            if z3.is_int_value(cs.n):
                n = cs.n.as_long()
                # item of symbolic length 0/1 (the `x[i:i+1] in separators` idiom)
                alts = [it.n == 0] if True else []
                for s in range(n):
                    alts.append(z3.And(it.n == 1, it.at(z3.IntVal(0)) == cs.at(z3.IntVal(s))))
                P = E.cur()
                if not P.entails(it.n <= 1):
                    raise E.Unsupported('substring test with symbolic needle')
                return wrap_bool(z3.Or(*alts))
            raise E.Unsupported('substring test in symbolic haystack')
        if is_intlike(item):
            if z3.is_int_value(cs.n):
                n = cs.n.as_long()
                return wrap_bool(z3.Or(*[cs.at(z3.IntVal(k)) == as_int(item) for k in range(n)])) if n else False
            raise E.Unsupported('int in symbolic-length seq')
    if V.is_symbolic(container) or V.is_symbolic(item):
        raise E.Unsupported('in on %s' % type(container).__name__)
    return item in container


def truth(v):
    """Python truthiness with path branching"""
    P = E.cur()
    if isinstance(v, SBool):
        return P.branch(v.e)
    if isinstance(v, SInt):
        return P.branch(v.e != 0)
    if isinstance(v, SSeq):
        return P.branch(v.n != 0)
    if isinstance(v, SStr):
        return P.branch(v.seq.n != 0)
    if isinstance(v, SEnum):
        if issubclass(v.cls, int):
            return P.branch(as_int(v) != 0)
        return True
    if isinstance(v, SFlags):
        return P.branch(z3.Or(*v.bits.values()))
    if isinstance(v, SObj):
        from . import interp
        return interp.obj_truth(v)
    if isinstance(v, (SDateTime, STimeDelta, SAbs)):
        return True
    return bool(v)
