# pyvc.frame -- the AST interpreter proper: statements and expressions of the supported Python subset
import ast
import builtins
import types

import z3

from . import values as V
from . import engine as E
from . import ops
from . import interp as I
from .values import SInt, SBool, SSeq, SStr, SEnum, SObj, SFlags, SRat, SDateTime, SAbs
from .ops import mk_exc, raise_


class Ret(Exception):
    def __init__(self, v):
        Exception.__init__(self)
        self.v = v


class Break(Exception):
    pass


class Continue(Exception):
    pass


MAX_DEPTH = 60
LOOPS = {}          # (qualname, ordinal) -> loop contract (see pyvc.loops)
DEFAULT_BOUND = None   # bound for loops that have neither a contract nor an entry in BOUNDS (None: unsupported)
BOUNDS = {}         # (qualname, ordinal) -> max iterations explored when no contract applies (bounded stand-in)


def bind_args(fn, node, args, kw):
    a = node.args
    params = [p.arg for p in a.posonlyargs + a.args]
    env = {}
    defaults = fn.__defaults__ or ()
    kw = dict(kw)
    if len(args) > len(params) and a.vararg is None:
        raise_(TypeError, '%s() takes %d positional arguments but %d were given' % (fn.__name__, len(params), len(args)))
    for k, p in enumerate(params):
        if k < len(args):
            env[p] = args[k]
            if p in kw:
                raise_(TypeError, 'multiple values for %s' % p)
        elif p in kw:
            env[p] = kw.pop(p)
        else:
            di = k - (len(params) - len(defaults))
            if di < 0:
                raise_(TypeError, '%s() missing argument %s' % (fn.__name__, p))
            env[p] = defaults[di]
    if a.vararg is not None:
        env[a.vararg.arg] = tuple(args[len(params):])
    kwd = fn.__kwdefaults__ or {}
    for p in a.kwonlyargs:
        if p.arg in kw:
            env[p.arg] = kw.pop(p.arg)
        elif p.arg in kwd:
            env[p.arg] = kwd[p.arg]
        else:
            raise_(TypeError, 'missing kw-only %s' % p.arg)
    if a.kwarg is not None:
        env[a.kwarg.arg] = kw
    elif kw:
        raise_(TypeError, '%s() got unexpected keyword arguments %s' % (fn.__name__, sorted(kw)))
    return env


def run_function(fn, args, kw):
    node = I.fn_ast(fn)
    env = bind_args(fn, node, args, kw)
    fr = Frame(fn, env, node)
    P = E.cur()
    P.depth += 1
    P.max_depth = max(P.max_depth, P.depth)
    if P.depth > MAX_DEPTH:
        P.depth -= 1
        raise E.Unsupported('interpreted call depth > %d (recursion?) in %s' % (MAX_DEPTH, fn.__qualname__))
    try:
        fr.block(node.body)
    except Ret as r:
        return r.v
    finally:
        P.depth -= 1
    return None


def run_closure(c, args, kw):
    node = c.node
    if isinstance(node, ast.Lambda):
        a = node.args
        params = [p.arg for p in a.args]
        env = dict(c.frame.env)
        for p, v in zip(params, args):
            env[p] = v
        fr = Frame(c.frame.fn, env, c.frame.node, parent=c.frame)
        return fr.ev(node.body)
    # nested def
    fake = types.SimpleNamespace(__defaults__=tuple(c.frame.ev(d) for d in node.args.defaults), __kwdefaults__=None,
                                 __name__=node.name)
    env = dict(c.frame.env)
    env.update(bind_args(fake, node, args, kw))
    fr = Frame(c.frame.fn, env, c.frame.node, parent=c.frame)
    try:
        fr.block(node.body)
    except Ret as r:
        return r.v
    return None


class Frame(object):
    def __init__(self, fn, env, node, parent=None):
        self.fn, self.env, self.node, self.parent = fn, env, node, parent
        self.g = fn.__globals__
        self.exc_stack = []

    # ------------------------------------------------------------------ statements
    def block(self, stmts):
        for st in stmts:
            self.stmt(st)

    def stmt(self, st):
        E.cur().steps += 1
        getattr(self, 'st_' + type(st).__name__, self.st_unsupported)(st)

    def st_unsupported(self, st):
        raise E.Unsupported('statement %s at %s:%d' % (type(st).__name__, self.fn.__qualname__, st.lineno))

    def st_Expr(self, st):
        self.ev(st.value)

    def st_Pass(self, st):
        pass

    def st_Return(self, st):
        raise Ret(self.ev(st.value) if st.value is not None else None)

    def st_Break(self, st):
        raise Break()

    def st_Continue(self, st):
        raise Continue()

    def st_Assign(self, st):
        v = self.ev(st.value)
        for t in st.targets:
            self.assign(t, v)

    def st_AugAssign(self, st):
        t = st.target
        if isinstance(t, ast.Name):
            cur = self.lookup(t.id)
            self.env[t.id] = self.inplace(type(st.op), cur, self.ev(st.value))
        elif isinstance(t, ast.Attribute):
            o = self.ev(t.value)
            cur = I.getattr_(o, t.attr)
            I.setattr_(o, t.attr, self.inplace(type(st.op), cur, self.ev(st.value)))
        elif isinstance(t, ast.Subscript):
            o = self.ev(t.value)
            k = self.ev(t.slice)
            cur = self.subscript(o, k)
            self.store_subscript(o, k, self.inplace(type(st.op), cur, self.ev(st.value)))
        else:
            self.st_unsupported(st)

    def inplace(self, op, cur, v):
        # += on mutable sequences mutates in place (aliases observe it)
        if op is ast.Add and isinstance(cur, SSeq) and cur.kind in ('bytearray', 'list'):
            if isinstance(v, I.MethodRef) or not isinstance(v, (SSeq, bytes, bytearray, list, tuple)):
                if isinstance(v, (map, range)) or hasattr(v, '__iter__') and not V.is_symbolic(v):
                    v = list(v)
                else:
                    raise E.Unsupported('+= of %s onto sequence' % type(v).__name__)
            if cur.kind == 'bytearray' and ops.seq_kind_of(v) not in ('bytes', 'bytearray'):
                raise_(TypeError, "can't concat %s to bytearray" % ops.seq_kind_of(v))
            nv = V.concat(cur, ops.as_seq(v), cur.kind)
            cur.set(nv.n, nv._at)
            return cur
        if op is ast.Add and isinstance(cur, bytearray) and V.is_symbolic(v):
            return ops.binop(op, cur, v).copy('bytearray')
        if op is ast.Add and isinstance(cur, list) and not isinstance(v, SSeq):
            if V.is_symbolic(v) and not isinstance(v, (list, tuple)):
                raise E.Unsupported('list += %s' % type(v).__name__)
            cur.extend(list(v))
            return cur
        if op is ast.Add and isinstance(cur, bytearray) and isinstance(v, (bytes, bytearray)):
            cur += v
            return cur
        return ops.binop(op, cur, v)

    def st_Delete(self, st):
        for t in st.targets:
            if isinstance(t, ast.Subscript):
                o = self.ev(t.value)
                k = self.ev(t.slice)
                self.del_subscript(o, k)
            elif isinstance(t, ast.Name):
                del self.env[t.id]
            else:
                self.st_unsupported(st)

    def st_If(self, st):
        if ops.truth(self.ev(st.test)):
            self.block(st.body)
        else:
            self.block(st.orelse)

    def st_Raise(self, st):
        if st.exc is None:
            if self.exc_stack:
                raise E.PyRaise(self.exc_stack[-1])
            raise_(RuntimeError, 'No active exception to reraise')
        e = self.ev(st.exc)
        if isinstance(e, type):
            e = I.construct(e, [], {})
        if isinstance(e, BaseException):
            e = I.lift_exception(e)
        if not isinstance(e, SObj):
            raise_(TypeError, 'exceptions must derive from BaseException')
        raise E.PyRaise(e)

    def st_Assert(self, st):
        if not ops.truth(self.ev(st.test)):
            raise_(AssertionError)

    def st_Try(self, st):
        try:
            try:
                self.block(st.body)
            except E.PyRaise as pr:
                exc = pr.exc
                for h in st.handlers:
                    t = self.ev(h.type) if h.type is not None else BaseException
                    if issubclass(exc.cls, t):
                        if h.name:
                            self.env[h.name] = exc
                        self.exc_stack.append(exc)
                        try:
                            self.block(h.body)
                        finally:
                            self.exc_stack.pop()
                        break
                else:
                    raise
            else:
                self.block(st.orelse)
        finally:
            if st.finalbody:
                self.block(st.finalbody)

    def st_For(self, st):
        from . import loops
        loops.run_for(self, st)

    def st_While(self, st):
        from . import loops
        loops.run_while(self, st)

    def st_FunctionDef(self, st):
        self.env[st.name] = I.Closure(st, self)

    def st_Import(self, st):
        for al in st.names:
            mod = __import__(al.name)
            self.env[al.asname or al.name.split('.')[0]] = mod

    def st_ImportFrom(self, st):
        mod = __import__(st.module, fromlist=[a.name for a in st.names])
        for al in st.names:
            self.env[al.asname or al.name] = getattr(mod, al.name)

    def st_With(self, st):
        self.st_unsupported(st)

    # ------------------------------------------------------------------ assignment helpers
    def assign(self, t, v):
        if isinstance(t, ast.Name):
            self.env[t.id] = v
        elif isinstance(t, ast.Attribute):
            I.setattr_(self.ev(t.value), t.attr, v)
        elif isinstance(t, ast.Subscript):
            self.store_subscript(self.ev(t.value), self.ev(t.slice), v)
        elif isinstance(t, (ast.Tuple, ast.List)):
            vals = I.iterate_concrete(v) if not isinstance(v, (tuple, list)) else list(v)
            if len(vals) != len(t.elts):
                raise_(ValueError, 'unpack')
            for tt, vv in zip(t.elts, vals):
                self.assign(tt, vv)
        else:
            raise E.Unsupported('assignment target %s' % type(t).__name__)

    def lookup(self, name):
        fr = self
        while fr is not None:
            if name in fr.env:
                v = fr.env[name]
                if type(v).__name__ == 'Poison':
                    raise E.Unsupported('loop temporary %s read after a contracted loop' % name)
                return v
            fr = fr.parent
        fn = self.fn
        if getattr(fn, '__closure__', None):
            fv = fn.__code__.co_freevars
            if name in fv:
                return fn.__closure__[fv.index(name)].cell_contents
        if name in self.g:
            return self.g[name]
        try:
            return getattr(builtins, name)
        except AttributeError:
            raise_(NameError, name)

    # ------------------------------------------------------------------ subscripts
    def subscript(self, o, k):
        P = E.cur()
        if isinstance(o, SObj):
            d, _ = I.class_lookup(o.cls, '__getitem__')
            return I.call(d, [o, k], {})
        if isinstance(k, slice):
            lo, hi, step = k.start, k.stop, k.step
            if step is not None and step != 1:
                if isinstance(o, SSeq) and isinstance(step, int) and step > 1:
                    n = o.n
                    a = V.clamp_index(ops.as_int(lo), n) if lo is not None else z3.IntVal(0)
                    b = V.clamp_index(ops.as_int(hi), n) if hi is not None else n
                    cnt = V.simp(z3.If(b > a, (b - a + step - 1) / step, z3.IntVal(0)))
                    return SSeq(cnt, lambda j, xat=o._at, a=a, step=step: xat(V.simp(a + V.iv(j) * step)), o.kind, o.elem)
                if V.is_symbolic(o) or V.is_symbolic([lo, hi]):
                    raise E.Unsupported('extended slice')
                return o[k]
            if isinstance(o, SStr):
                return SStr(V.slice_seq(o.seq, None if lo is None else ops.as_int(lo), None if hi is None else ops.as_int(hi)), o.enc)
            if isinstance(o, SSeq) or (isinstance(o, (bytes, bytearray, list, tuple)) and V.is_symbolic([lo, hi])):
                if isinstance(o, (list, tuple)) and not all(ops.is_intlike(e) for e in o):
                    raise E.Unsupported('symbolic slice of object list')
                s = ops.as_seq(o)
                r = V.slice_seq(s, None if lo is None else ops.as_int(lo), None if hi is None else ops.as_int(hi))
                c = ops.try_concrete_seq(r) if not isinstance(o, SSeq) else None
                return r if c is None else c
            if isinstance(o, str) and V.is_symbolic([lo, hi]):
                raise E.Unsupported('symbolic slice of str')
            return o[k]
        if isinstance(o, (SSeq, SStr)):
            s = o.seq if isinstance(o, SStr) else o
            if not ops.is_intlike(k):
                raise_(TypeError, 'indices must be integers')
            i = ops.as_int(k)
            if P.branch(z3.Or(i >= s.n, i < -s.n)):
                raise_(IndexError, 'index out of range')
            i = V.simp(z3.If(i < 0, i + s.n, i))
            if isinstance(o, SStr):
                return SStr(V.slice_seq(s, i, i + 1), o.enc)
            return I.seq_elem(s, i)
        if isinstance(o, dict):
            if V.is_symbolic(k):
                return self.dict_get_symbolic(o, k)
            try:
                return o[k]
            except KeyError:
                raise_(KeyError, k)
            except TypeError as e:
                raise_(TypeError, *e.args)
        if isinstance(o, (list, tuple, bytes, bytearray, str)):
            if isinstance(k, (SInt, SBool, SEnum)):
                i = ops.as_int(k)
                n = len(o)
                if P.branch(z3.Or(i >= n, i < -n)):
                    raise_(IndexError, 'index out of range')
                # case split over the concrete container
                for idx in range(-n, n):
                    if idx == n - 1 or P.branch(i == idx):
                        return o[idx]
            try:
                return o[k]
            except IndexError:
                raise_(IndexError, 'index out of range')
            except TypeError as e:
                raise_(TypeError, *e.args)
        if V.is_symbolic(o) or V.is_symbolic(k):
            raise E.Unsupported('subscript of %s' % type(o).__name__)
        return I.native(lambda: o[k], [], {})

    def dict_get_symbolic(self, o, k):
        P = E.cur()
        for key in list(o.keys()):
            c = ops.eq_values(k, key)
            if c is True or (c is not False and ops.truth(c)):
                return o[key]
        raise_(KeyError, 'symbolic key')

    def store_subscript(self, o, k, v):
        I.check_shared_write(o, 'item store')
        if isinstance(o, SObj):
            d, _ = I.class_lookup(o.cls, '__setitem__')
            return I.call(d, [o, k, v], {})
        if isinstance(o, dict):
            if V.is_symbolic(k):
                raise E.Unsupported('symbolic dict key store')
            o[k] = v
            return None
        if isinstance(o, list) and isinstance(k, int):
            try:
                o[k] = v
            except IndexError:
                raise_(IndexError, 'list assignment index out of range')
            return None
        if isinstance(o, SSeq) and o.kind in ('list', 'bytearray') and isinstance(k, slice) and k.step is not None \
                and k.step != 1:
            # extended slice: the number of values must equal the number of selected positions (else ValueError)
            from . import models
            P = E.cur()
            step = k.step
            if not (isinstance(step, int) and step > 1):
                raise E.Unsupported('extended slice assignment with step %r' % (step,))
            n = o.n
            lo = V.clamp_index(ops.as_int(k.start), n) if k.start is not None else z3.IntVal(0)
            hi = V.clamp_index(ops.as_int(k.stop), n) if k.stop is not None else n
            cnt = V.simp(z3.If(hi > lo, (hi - lo + step - 1) / step, z3.IntVal(0)))
            mid = models.typed_seq_of(o, v)
            if P.branch(mid.n != cnt):
                raise_(ValueError, 'attempt to assign sequence of size to extended slice of different size')
            old = o._at
            mat = mid._at
            o.set(n, lambda j, old=old, mat=mat, lo=lo, hi=hi, step=step: V.ite(
                V.simp(z3.And(V.iv(j) >= lo, V.iv(j) < hi, (V.iv(j) - lo) % step == 0)), mat(V.simp((V.iv(j) - lo) / step)), old(j)))
            return None
        if isinstance(o, SSeq) and o.kind in ('list', 'bytearray') and isinstance(k, slice):
            from . import models
            n = o.n
            lo = V.clamp_index(ops.as_int(k.start), n) if k.start is not None else z3.IntVal(0)
            hi = V.clamp_index(ops.as_int(k.stop), n) if k.stop is not None else n
            hi = V.simp(z3.If(hi < lo, lo, hi))
            mid = models.typed_seq_of(o, v)
            nv = V.concat(V.concat(V.slice_seq(o, 0, lo), mid, o.kind), V.slice_seq(o, hi, None), o.kind)
            o.set(nv.n, nv._at)
            return None
        if isinstance(o, SSeq) and o.kind in ('list', 'bytearray') and not isinstance(k, slice):
            P = E.cur()
            from . import models
            i = ops.as_int(k)
            if P.branch(z3.Or(i >= o.n, i < -o.n)):
                raise_(IndexError, 'assignment index out of range')
            i = V.simp(z3.If(i < 0, i + o.n, i))
            old = o._at
            ve = models.raw_term(o, v)
            o.set(o.n, lambda j, old=old, i=i, ve=ve: V.ite(V.simp(V.iv(j) == i), ve, old(j)))
            return None
        if V.is_symbolic(o) or V.is_symbolic(k) or V.is_symbolic(v):
            raise E.Unsupported('subscript store on %s' % type(o).__name__)
        o[k] = v
        return None

    def del_subscript(self, o, k):
        if isinstance(o, SObj):
            d, _ = I.class_lookup(o.cls, '__delitem__')
            return I.call(d, [o, k], {})
        if isinstance(o, SSeq) and o.kind in ('bytearray', 'list'):
            if isinstance(k, slice):
                if k.step is not None:
                    raise E.Unsupported('del extended slice')
                n = o.n
                lo = V.clamp_index(ops.as_int(k.start), n) if k.start is not None else z3.IntVal(0)
                hi = V.clamp_index(ops.as_int(k.stop), n) if k.stop is not None else n
                hi = V.simp(z3.If(hi < lo, lo, hi))
                head = V.slice_seq(o, 0, lo)
                tail = V.slice_seq(o, hi, None)
                nv = V.concat(head, tail, o.kind)
                o.set(nv.n, nv._at)
                return None
            P = E.cur()
            i = ops.as_int(k)
            if P.branch(z3.Or(i >= o.n, i < -o.n)):
                raise_(IndexError, 'deletion index out of range')
            i = V.simp(z3.If(i < 0, i + o.n, i))
            nv = V.concat(V.slice_seq(o, 0, i), V.slice_seq(o, i + 1, None), o.kind)
            o.set(nv.n, nv._at)
            return None
        if isinstance(o, (SSeq,)):
            raise_(TypeError, "'%s' object doesn't support item deletion" % o.kind)
        if isinstance(o, (bytes, tuple, str)):
            raise_(TypeError, "'%s' object doesn't support item deletion" % type(o).__name__)
        if V.is_symbolic(k):
            raise E.Unsupported('symbolic deletion on native %s' % type(o).__name__)
        try:
            del o[k]
        except (IndexError, KeyError) as e:
            raise_(type(e), *e.args)
        return None

    # ------------------------------------------------------------------ expressions
    def ev(self, e):
        return getattr(self, 'ex_' + type(e).__name__, self.ex_unsupported)(e)

    def ex_unsupported(self, e):
        raise E.Unsupported('expression %s at %s:%d' % (type(e).__name__, self.fn.__qualname__, getattr(e, 'lineno', 0)))

    def ex_Constant(self, e):
        return e.value

    def ex_Name(self, e):
        return self.lookup(e.id)

    def ex_Attribute(self, e):
        return I.getattr_(self.ev(e.value), e.attr)

    def ex_Dict(self, e):
        out = {}
        for k, v in zip(e.keys, e.values):
            if k is None:
                out.update(self.ev(v))
            else:
                out[self.ev(k)] = self.ev(v)
        return out

    def ex_List(self, e):
        return [self.ev(x) for x in e.elts]

    def ex_Tuple(self, e):
        return tuple(self.ev(x) for x in e.elts)

    def ex_Set(self, e):
        vals = [self.ev(x) for x in e.elts]
        if V.is_symbolic(vals):
            raise E.Unsupported('set literal with symbolic members')
        return set(vals)

    def ex_Slice(self, e):
        return slice(self.ev(e.lower) if e.lower else None, self.ev(e.upper) if e.upper else None,
                     self.ev(e.step) if e.step else None)

    def ex_Subscript(self, e):
        return self.subscript(self.ev(e.value), self.ev(e.slice))

    def ex_Lambda(self, e):
        return I.Closure(e, self)

    def ex_IfExp(self, e):
        return self.ev(e.body) if ops.truth(self.ev(e.test)) else self.ev(e.orelse)

    def ex_JoinedStr(self, e):
        self.ex_unsupported(e)

    def ex_Call(self, e):
        if isinstance(e.func, ast.Name) and e.func.id == 'super' and 'super' not in self.env:
            if e.args:
                after, obj = self.ev(e.args[0]), self.ev(e.args[1])
            else:
                raise E.Unsupported('zero-argument super()')
            return I.SuperProxy(after, obj)
        f = self.ev(e.func)
        args = []
        for a in e.args:
            if isinstance(a, ast.Starred):
                args.extend(I.iterate_concrete(self.ev(a.value)))
            else:
                args.append(self.ev(a))
        kw = {}
        for k in e.keywords:
            v = self.ev(k.value)
            if k.arg is None:
                kw.update(self.mapping_items(v))
            else:
                kw[k.arg] = v
        return I.call(f, args, kw)

    def mapping_items(self, v):
        if isinstance(v, dict):
            return v
        if isinstance(v, SObj):
            # a Mapping implemented in the repository (ParserBase): keys() via __iter__, values via __getitem__
            it = I.call(I.getattr_(v, '__iter__'), [], {})
            keys = list(it)
            return {k: self.subscript(v, k) for k in keys}
        return dict(v)

    def ex_BinOp(self, e):
        return ops.binop(type(e.op), self.ev(e.left), self.ev(e.right))

    def ex_UnaryOp(self, e):
        v = self.ev(e.operand)
        if isinstance(e.op, ast.Not):
            if isinstance(v, SBool):
                return ops.not_value(v)
            return not ops.truth(v)
        if isinstance(e.op, ast.USub):
            if isinstance(v, (SInt, SBool)):
                return ops.wrap_int(-ops.as_int(v))
            return -v
        if isinstance(e.op, ast.UAdd):
            return v
        if isinstance(e.op, ast.Invert):
            if isinstance(v, (SInt, SBool)):
                return ops.wrap_int(-ops.as_int(v) - 1)
            return ~v
        self.ex_unsupported(e)

    def ex_BoolOp(self, e):
        if isinstance(e.op, ast.And):
            v = True
            for x in e.values:
                v = self.ev(x)
                if isinstance(v, SBool) and x is e.values[-1]:
                    return v
                if not ops.truth(v):
                    return v if not isinstance(v, SBool) else False
            return v
        v = False
        for x in e.values:
            v = self.ev(x)
            if isinstance(v, SBool) and x is e.values[-1]:
                return v
            if ops.truth(v):
                return v if not isinstance(v, SBool) else True
        return v

    def ex_Compare(self, e):
        l = self.ev(e.left)
        res = True
        for op, c in zip(e.ops, e.comparators):
            r = self.ev(c)
            res = ops.compare(type(op), l, r)
            if len(e.ops) > 1 and not ops.truth(res):
                return False
            l = r
        return res

    def ex_ListComp(self, e):
        from . import loops
        return loops.comprehension(self, e, 'list')

    def ex_SetComp(self, e):
        from . import loops
        return loops.comprehension(self, e, 'set')

    def ex_GeneratorExp(self, e):
        from . import loops
        return loops.comprehension(self, e, 'list')

    def ex_DictComp(self, e):
        from . import loops
        return loops.comprehension(self, e, 'dict')

    def ex_Starred(self, e):
        self.ex_unsupported(e)
