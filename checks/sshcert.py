# OpenSSH certificates (PROTOCOL.certkeys): the parameter block that follows the public key, under contract at the level of
# the two functions that write and read it -- SshHostCertificateV0{0,1}Base._compose_host_cert_params / _parse_host_cert_params.
# The nested structures (principals, option vectors, signature key, signature) enter through their class contracts (abstract
# objects: compose() gives some byte string; parsing a buffer that starts with those bytes gives the object back, clauses
# K3 + K8 of the nested class), scalars are symbolic. Stated here:
#   K6   the block is exactly the PROTOCOL.certkeys sequence of fields, each verbatim and in this order            (C07)
# The read direction (_parse_host_cert_params on those bytes) is NOT decided symbolically: with eleven fields at symbolic
# offsets the feasibility queries of the bounds checks exceed the solver budget and the nested K3 clause falls back to "some
# outcome". It is exercised only natively, by the search that looks for a failing input once the unit is not discharged.
# The certificate classes as a whole stay outside the round-trip exploration (external key objects).
import z3

from pyvc import values as V, engine as E, interp as I, ops, vc
from pyvc.runner import Unit
from pyvc.values import SObj, SInt
from checks import e1

FOREVER = 2 ** 64 - 1

# PROTOCOL.certkeys (v01): uint64 serial, uint32 type, string key id, string valid principals, uint64 valid after,
# uint64 valid before, string critical options, string extensions, string reserved, string signature key, string signature
V01 = ('serial', 'certificate_type', 'key_id', 'valid_principals', 'valid_after', 'valid_before', 'critical_options', 'extensions',
       'reserved', 'signature_key', 'signature')
# PROTOCOL.certkeys (v00, OpenSSH 5.4): uint32 type, string key id, string valid principals, uint64 valid after, uint64 valid
# before, string constraints, string nonce, string reserved, string signature key, string signature
V00 = ('certificate_type', 'key_id', 'valid_principals', 'valid_after', 'valid_before', 'constraints', 'nonce', 'reserved',
       'signature_key', 'signature')


def _nested_classes():
    from cryptoparser.ssh import key as SK
    return dict(valid_principals=SK.SshCertValidPrincipals, critical_options=SK.SshCertCriticalOptionVector,
                extensions=SK.SshCertExtensionVector, constraints=SK.SshCertConstraintVector,
                signature_key=SK.SshHostKeyVariant, signature=SK.SshCertSignature)


def _abstract(P, cls, name):
    w, facts = V.base_seq('composed_' + name, 'bytearray')
    for f in facts:
        P.assume(f)
    o = SObj(cls)
    o.abstract, o.abstract_of, o.abstract_id = True, cls, V.fresh_int('obj')
    o.f['_abs_compose'] = w
    P.inputs['composed_' + name] = w
    return o, w


def thunk_for(cls, layout):
    def thunk():
        from pyvc import gen
        from cryptoparser.common.parse import ComposerBinary
        from cryptoparser.ssh.key import SshCertType
        from spec.wire import cat, u32, u64
        from spec.ssh import string
        from spec.tables import TABLES
        P = E.cur()
        P.top_class = cls
        P.nested_memo = []
        nested = _nested_classes()
        fields, parts = {}, []
        for name in layout:
            if name == 'serial':
                v = V.fresh_int('serial')
                P.assume(z3.And(v >= 0, v < 2 ** 64))
                fields[name] = SInt(v)
                parts.append(u64(v))
            elif name == 'certificate_type':
                m = gen.make(P, ('enum', SshCertType), 'certificate_type', 0)
                fields[name] = m
                code = z3.IntVal(0)
                for i, mem in enumerate(list(SshCertType)):
                    code = z3.If(m.idx == i, z3.IntVal(TABLES['SshCertType'][mem.name]), code)
                parts.append(u32(code))
            elif name == 'key_id':
                s = gen.make(P, ('str',), 'key_id', 0)
                fields[name] = s
                parts.append(string(s.seq if hasattr(s, 'seq') else s))
            elif name in ('valid_after', 'valid_before'):
                if P.choose('%s is None' % name):
                    fields[name] = None
                    parts.append(u64(z3.IntVal(FOREVER)))          # "forever"
                else:
                    t = gen.make(P, ('datetime', True), name, 0)
                    P.assume(z3.And(t.secs >= 0, t.secs <= 253402300799))
                    fields[name] = t
                    parts.append(u64(t.secs))
            elif name in ('nonce', 'reserved'):
                b = gen.fresh_bytes(P, name, 'bytes')
                fields[name] = b
                parts.append(string(b))
            elif name in ('signature_key', 'signature'):
                o, w = _abstract(P, nested[name], name)
                fields[name] = o
                parts.append(string(w))
            else:
                o, w = _abstract(P, nested[name], name)
                fields[name] = o
                parts.append(w)                                      # the vector classes write their own uint32 length
            if name not in P.inputs and not isinstance(fields[name], SObj):
                P.inputs[name] = fields[name]
        o = SObj(cls, fields)
        composer = I.construct(ComposerBinary, [], {})
        out = vc.outcome_of(lambda: I.call(I.getattr_(o, '_compose_host_cert_params'), [composer], {}))
        if out.kind != 'ret':
            e1.record_path_fact(P, 'K6 certificate parameters: compose refuses only with the library errors (raised %s)' % out.value.cls.__name__,
                                issubclass(out.value.cls, e1.FOUR))
            return
        wire = ops.as_seq(I.getattr_(composer, 'composed_bytes')).copy('bytes')
        want = cat(*parts)
        vc.oblige_equal(P, 'K6 certificate parameters: the PROTOCOL.certkeys fields, each verbatim and in that order', wire, want)
    return thunk


# ------------------------------------------------------------------------------------------------------ native side
def _native_objects():
    import datetime
    from cryptoparser.ssh import key as SK
    from cryptoparser.common.parse import ComposerBinary
    ed = ComposerBinary()
    ed.compose_string('ssh-ed25519', 'ascii', 4)
    ed.compose_bytes(bytes(range(32)), 4)
    sig_key = SK.SshHostKeyVariant.parse_exact_size(ed.composed_bytes)
    sg = ComposerBinary()
    sg.compose_string('ssh-ed25519', 'ascii', 4)
    sg.compose_bytes(bytes(64), 4)
    signature = SK.SshCertSignature.parse_exact_size(sg.composed_bytes)
    un = SK.SshCertExtensionUnparsed
    utc = datetime.timezone.utc
    option_sets = [
        ([], []),
        ([un('zeta@example.com', b'\x01'), un('alpha@example.com', b'')], [un('yy@example.com', b''), un('bb@example.com', b'\x00\x01')]),
        ([un('b', b''), un('a', b''), un('c', b'')], [un('permit-zz', b''), un('permit-aa', b''), un('Permit-mm', b'')]),
    ]
    out = []
    for crit, ext in option_sets:
        for va, vb in ((datetime.datetime(2020, 1, 2, 3, 4, 5, tzinfo=utc), None), (None, datetime.datetime(2038, 1, 19, 3, 14, 8, tzinfo=utc))):
            out.append(dict(serial=2 ** 63 + 5, certificate_type=list(SK.SshCertType)[-1], key_id='host key',
                            valid_principals=SK.SshCertValidPrincipals([SK.SshString('b.example.com'), SK.SshString('a.example.com')]), valid_after=va, valid_before=vb,
                            critical_options=SK.SshCertCriticalOptionVector(crit), extensions=SK.SshCertExtensionVector(ext),
                            constraints=SK.SshCertConstraintVector(crit + ext), nonce=b'\x09\x08\x07', reserved=b'',
                            signature_key=sig_key, signature=signature))
    return out


def native(cls, layout):
    def search(seed=0, hints=()):
        import calendar
        import struct
        from cryptoparser.common.parse import ComposerBinary, ParserBinary
        from spec.tables import TABLES
        st = lambda b: struct.pack('!I', len(b)) + bytes(b)
        ts = lambda t: struct.pack('!Q', FOREVER if t is None else calendar.timegm(t.utctimetuple()))
        for vals in _native_objects():
            o = object.__new__(cls)
            o.__dict__.update({k: vals[k] for k in layout})
            call = '%s._compose_host_cert_params(%s)' % (cls.__name__, ', '.join('%s=%r' % (k, vals[k]) for k in layout if k in (
                'critical_options', 'extensions', 'constraints', 'valid_after', 'valid_before')))
            try:
                c = ComposerBinary()
                o._compose_host_cert_params(c)
                got = bytes(c.composed_bytes)
            except Exception as ex:
                return dict(reproduced=True, call=call, expected='composed', observed=repr(ex)[:160], key='certificate parameters')
            want = b''
            for k in layout:
                v = vals[k]
                if k == 'serial':
                    want += struct.pack('!Q', v)
                elif k == 'certificate_type':
                    want += struct.pack('!I', TABLES['SshCertType'][v.name])
                elif k == 'key_id':
                    want += st(v.encode('ascii'))
                elif k in ('valid_after', 'valid_before'):
                    want += ts(v)
                elif k in ('nonce', 'reserved'):
                    want += st(v)
                elif k in ('signature_key', 'signature'):
                    want += st(v.compose())
                else:
                    want += bytes(v.compose())
            if got != want:
                return dict(reproduced=True, call=call, expected=want.hex()[:200], observed=got.hex()[:200], key='certificate parameters')
            try:
                p = ParserBinary(want)
                cls._parse_host_cert_params(p)
                back = {k: p[k] for k in layout}
                n = p.parsed_length
            except Exception as ex:
                return dict(reproduced=True, call=call + ' -> _parse_host_cert_params', expected='accepted', observed=repr(ex)[:160],
                            key='certificate parameters')
            diff = [k for k in layout if back[k] != vals[k]]
            if diff or n != len(want):
                return dict(reproduced=True, call=call + ' -> _parse_host_cert_params', expected='the same fields, %d bytes consumed' % len(want),
                            observed='fields that differ: %s, consumed %d' % (diff, n), key='certificate parameters')
        return dict(reproduced=False)
    return search


def units():
    from cryptoparser.ssh import key as SK
    out = []
    for cls, layout, tag in ((SK.SshHostCertificateV01EDDSA, V01, 'v01'), (SK.SshHostCertificateV00RSA, V00, 'v00')):
        def run(cls=cls, layout=layout):
            from contracts import nested
            e1.setup()
            nested.ABSTRACT_DISABLED = False
            return vc.run_unit('sshcert-' + cls.__name__, thunk_for(cls, layout), max_paths=400)
        s = native(cls, layout)
        base = 'SshHostCertificateV01Base' if tag == 'v01' else 'SshHostCertificateV00Base'
        out.append(Unit('K6/ssh.key.%s certificate parameter block (nested structures by their class contracts)' % base, run,
                        replay=lambda inputs, s=s: s(0), search=s, clause='K6',
                        functions=['%s._compose_host_cert_params' % base, 'spec PROTOCOL.certkeys']))
    return out
