# C15 -- JA3 of a client hello equals the published algorithm applied to its bytes
#
# The real TlsHandshakeClientHello.ja3 is run on symbolic client hellos (every code symbolic over its whole code space,
# GREASE and unknown values included); str(int) and str.join are kept as structured text (values.SText: literal pieces
# and decimal renderings of integer terms), so the result can be compared, piece by piece and for all values at once,
# with the specification ja3_spec written from the published definition over the values that are on the wire:
#   SSLVersion,Cipher,SSLExtension,EllipticCurve,EllipticCurvePointFormat -- decimal, "-" inside a section, "," between
#   sections, GREASE values (RFC 8701) left out, wire order.
# The wire view of the object (which codes are on the wire, in which order) is the RFC layout proved by C06 (K6).
import z3

from pyvc import values as V, engine as E, interp as I, ops, vc
from pyvc.runner import Unit
from pyvc.values import SCoded, SBool, SInt, SEnum, SText
from checks import common, e1, e2

TRUSTED_BASE = common.TRUSTED_BASE
ASSUMPTIONS = common.ASSUMPTIONS + [
    'JA3 definition (salesforce/ja3 README) transcribed from memory: five sections, decimal values, "-" and "," separators, GREASE values ignored; GREASE = the RFC 8701 values (0x?A?A with equal octets for two-octet fields, 0x0B + 0x1F*k for one-octet fields)',
    'the wire view of a hello object (cipher suites then TLS_FALLBACK_SCSV then TLS_EMPTY_RENEGOTIATION_INFO_SCSV, extensions in list order) is the layout proved by C06; ja3 of a parsed hello follows by C01 (parse(compose(o)) == o)',
    'str(int) is the decimal rendering, compared structurally (two texts are equal iff their literal pieces are equal and their integer pieces are equal): exact because renderings hold digits only and every separator is a non-digit',
]
UNCOVERED = ['hellos with more than 2 cipher suites, more than 2 groups / 2 point formats or other extension sequences than the templates '
             '(the per-item treatment is uniform: one loop iteration / one comprehension element per item)',
             'the MD5 digest of the JA3 string is not part of the library (ja3() returns the string)']
BOUNDED = ['client hellos with at most 2 cipher suites (1 with the three-extension templates) and the extension templates [], [unparsed], [groups(<=2)], [formats(<=2)], '
           '[unparsed, groups(1), formats(1)], [groups(1), unparsed, formats(1)], [supported_versions(1)]: every code symbolic over its whole code space']

KF_GREASE = 'KF-C15-ja3-keeps-grease-cipher-suites'
KF_SCSV = 'KF-C15-ja3-drops-scsv-cipher-suites'

TEMPLATES = {
    'none': [],
    'unparsed': ['u'],
    'groups': ['g2'],
    'formats': ['f2'],
    'unparsed+groups+formats': ['u', 'g1', 'f1'],
    'groups+unparsed+formats': ['g1', 'u', 'f1'],
    'supported_versions': ['v'],
    'groups+groups': ['g1', 'g1'],         # the same extension twice: the published algorithm keeps the LAST one
}


def listed(fid):
    import json, os
    p = os.path.join(common.HERE, 'known_findings.json')
    return any(f.get('id') == fid for f in json.load(open(p)).get('findings', []))


def grease2(c):
    """RFC 8701: 0x0A0A, 0x1A1A, ..., 0xFAFA"""
    return z3.And(c / 256 == c % 256, c % 16 == 10)


def grease1(c):
    """RFC 8701 one-octet GREASE values: 0x0B, 0x2A, 0x49, 0x68, 0x87, 0xA6, 0xC5, 0xE4"""
    return z3.Or(*[c == 0x0b + 0x1f * k for k in range(8)])


def sym_hello(P, template):
    from cryptodatahub.tls.version import TlsVersion
    from cryptodatahub.tls.algorithm import TlsExtensionType
    from cryptoparser.tls.version import TlsProtocolVersion
    from cryptoparser.tls.subprotocol import TlsHandshakeClientHello
    from cryptoparser.tls.ciphersuite import TlsCipherSuiteFactory
    from cryptoparser.tls.extension import (TlsExtensionUnparsed, TlsExtensionEllipticCurves, TlsExtensionECPointFormats,
                                            TlsNamedCurveFactory, TlsECPointFormatFactory)
    from cryptoparser.tls.grease import TlsInvalidTypeTwoByte, TlsInvalidTypeOneByte
    from contracts.common_base import coded_spec
    sp_suite = coded_spec(TlsCipherSuiteFactory.get_enum_class(), TlsInvalidTypeTwoByte, 2)
    sp_curve = coded_spec(TlsNamedCurveFactory.get_enum_class(), TlsInvalidTypeTwoByte, 2)
    sp_fmt = coded_spec(TlsECPointFormatFactory.get_enum_class(), TlsInvalidTypeOneByte, 1)
    wire = dict(suites=[], exts=[])

    def code(name, width):
        c = z3.Int(name)
        P.assume(z3.And(c >= 0, c < 256 ** width))
        P.inputs[name] = SInt(c)
        return c
    suites = []
    for i in range(1 if len(TEMPLATES[template]) > 1 else 2):
        if i and not P.choose('second cipher suite'):
            break
        c = code('suite_%d' % i, 2)
        P.assume(z3.And(c != 0x5600, c != 0x00ff))              # the markers are flags of the object
        wire['suites'].append(c)
        suites.append(I.materialize(SCoded(sp_suite, c)))
    fb, er = SBool(z3.Bool('fallback_scsv')), SBool(z3.Bool('empty_renegotiation_info_scsv'))
    P.inputs.update(fallback_scsv=fb, empty_renegotiation_info_scsv=er)
    wire['fb'], wire['er'] = fb.e, er.e
    vidx = z3.Int('version')
    members = list(TlsVersion)
    P.assume(z3.And(vidx >= 0, vidx < len(members)))
    P.inputs['version'] = SEnum(TlsVersion, vidx)
    wire['version'] = V.enum_table(TlsVersion, vidx, lambda m: m.value.code)
    exts = []
    for k, t in enumerate(TEMPLATES[template]):
        if t == 'u':
            c = code('ext_type_%d' % k, 2)
            # an unparsed extension carries a type the library has no class for
            P.assume(z3.And(c != TlsExtensionType.SUPPORTED_GROUPS.value.code, c != TlsExtensionType.EC_POINT_FORMATS.value.code))
            ty = I.construct(TlsInvalidTypeTwoByte, [SInt(c)], {})
            exts.append(I.construct(TlsExtensionUnparsed, [ty, b''], {}))
            wire['exts'].append(('type', c, None))
        elif t == 'v':
            # supported_versions (RFC 8446 4.2.1) with one symbolic version: JA3 still prints the version FIELD of the hello
            from cryptoparser.tls.extension import TlsExtensionSupportedVersionsClient
            sidx = z3.Int('supported_version_%d' % k)
            P.assume(z3.And(sidx >= 0, sidx < len(members)))
            P.inputs['supported_version_%d' % k] = SEnum(TlsVersion, sidx)
            sv = I.construct(TlsProtocolVersion, [SEnum(TlsVersion, sidx)], {})
            exts.append(I.construct(TlsExtensionSupportedVersionsClient, [[sv]], {}))
            wire['exts'].append(('type', z3.IntVal(TlsExtensionType.SUPPORTED_VERSIONS.value.code), None))
        elif t[0] == 'g':
            cs = []
            for j in range(int(t[1])):
                if j and not P.choose('second group'):
                    break
                cs.append(code('group_%d_%d' % (k, j), 2))
            exts.append(I.construct(TlsExtensionEllipticCurves, [[I.materialize(SCoded(sp_curve, c)) for c in cs]], {}))
            wire['exts'].append(('groups', z3.IntVal(TlsExtensionType.SUPPORTED_GROUPS.value.code), cs))
        else:
            cs = []
            for j in range(int(t[1])):
                if j and not P.choose('second format'):
                    break
                cs.append(code('format_%d_%d' % (k, j), 1))
            exts.append(I.construct(TlsExtensionECPointFormats, [[I.materialize(SCoded(sp_fmt, c)) for c in cs]], {}))
            wire['exts'].append(('formats', z3.IntVal(TlsExtensionType.EC_POINT_FORMATS.value.code), cs))
    o = I.construct(TlsHandshakeClientHello, [], dict(cipher_suites=suites, protocol_version=I.construct(TlsProtocolVersion, [SEnum(TlsVersion, vidx)], {}),
                                                      extensions=exts, fallback_scsv=fb, empty_renegotiation_info_scsv=er))
    return o, wire


def ja3_spec(P, wire):
    """the published definition over the values on the wire; the case splits (GREASE or not, marker present or not) are
    path splits of the specification"""
    def section(codes, grease):
        parts = []
        for c in codes:
            if P.branch(grease(c)):
                continue
            if parts:
                parts.append(('lit', '-'))
            parts.append(('int', c))
        return parts
    ciphers = list(wire['suites'])
    if P.branch(wire['fb']):
        ciphers.append(z3.IntVal(0x5600))
    if P.branch(wire['er']):
        ciphers.append(z3.IntVal(0x00ff))
    groups, formats = [], []
    for kind, t, cs in wire['exts']:
        if kind == 'groups':
            groups = cs
        elif kind == 'formats':
            formats = cs
    never = lambda c: z3.BoolVal(False)
    parts = [('int', wire['version']), ('lit', ',')] + section(ciphers, grease2) + [('lit', ',')] + \
        section([t for _, t, _ in wire['exts']], grease2) + [('lit', ',')] + section(groups, grease2) + [('lit', ',')] + \
        section(formats, grease1)
    return SText(parts)


def as_text(x):
    if isinstance(x, SText):
        return x
    if isinstance(x, str):
        return SText([('lit', x)])
    raise E.Unsupported('ja3 returned %s' % type(x).__name__)


def _split_literals(parts):
    """literal digits are integers too: '771' == str(771); split literals into digit runs and separators so that a
    concrete rendering and a symbolic one of the same value compare equal"""
    import re
    out = []
    for kind, v in parts:
        if kind == 'lit':
            for tok in re.findall(r'\d+|\D+', v):
                out.append(('int', z3.IntVal(int(tok))) if tok.isdigit() and (tok == '0' or not tok.startswith('0')) else ('lit', tok))
        else:
            out.append((kind, v))
    return SText(out).normal()


def oblige_text_equal(P, name, got, want):
    g, w = _split_literals(as_text(got).normal()), _split_literals(as_text(want).normal())
    shape = lambda ps: [(k, v if k == 'lit' else None) for k, v in ps]
    if shape(g) != shape(w):
        render = lambda ps: ''.join(v if k == 'lit' else '<%s>' % V.simp(v) for k, v in ps)
        e1.record_path_fact(P, '%s: same sections and separators (got %s, specification %s)' % (name, render(g)[:120], render(w)[:120]), False)
        return
    eqs = [a[1] == b[1] for a, b in zip(g, w) if a[0] == 'int']
    P.oblige('%s: every value equals the value on the wire' % name, z3.And(*eqs) if eqs else z3.BoolVal(True))


def ja3_unit(template, grease_known, scsv_known):
    def thunk():
        from cryptoparser.tls.subprotocol import TlsHandshakeClientHello
        P = E.cur()
        P.top_class = TlsHandshakeClientHello
        o, wire = sym_hello(P, template)
        P.inputs['template'] = template
        if grease_known:
            for c in wire['suites']:
                P.assume(z3.Not(grease2(c)))                       # listed finding, replayed natively on every run
        if scsv_known:
            P.assume(z3.Not(wire['fb']))
            P.assume(z3.Not(wire['er']))
        snapshot = vc.clone(o)
        out = vc.outcome_of(lambda: I.call(I.getattr_(o, 'ja3'), [], {}))
        if out.kind != 'ret':
            e1.record_path_fact(P, 'JA3 [%s]: ja3() returns a string (raised %s)' % (template, out.value.cls.__name__), False)
            return
        got = out.value
        vc.oblige_equal(P, 'ja3() leaves the hello unchanged', o, snapshot)
        want = ja3_spec(P, wire)
        oblige_text_equal(P, 'JA3 [%s]' % template, got, want)
        again = I.call(I.getattr_(o, 'ja3'), [], {})
        oblige_text_equal(P, 'JA3 [%s] second call returns the same string' % template, again, got)
    def run():
        e2.setup()
        r = vc.run_unit('ja3', thunk, max_paths=6000)
        r.extra['bounded'] = sorted(set(r.extra.get('bounded', [])) | {
            'list lengths: template %s with at most %d cipher suites, 2 groups / point formats; every code symbolic over its whole code space'
            % (template, 1 if len(TEMPLATES[template]) > 1 else 2)})
        return r
    return run


# ------------------------------------------------------------------------------------------------------- native side
GREASE2 = {0x0a0a + 0x1010 * k for k in range(16)}
GREASE1 = {0x0b + 0x1f * k for k in range(8)}


def ja3_from_bytes(wire):
    """the published algorithm applied directly to the bytes of a ClientHello handshake message"""
    b = bytes(wire)
    assert b[0] == 1
    p = 4
    version = int.from_bytes(b[p:p + 2], 'big'); p += 2 + 32
    p += 1 + b[p]
    n = int.from_bytes(b[p:p + 2], 'big'); p += 2
    ciphers = [int.from_bytes(b[i:i + 2], 'big') for i in range(p, p + n, 2)]; p += n
    p += 1 + b[p]
    exts, groups, formats = [], [], []
    if p < len(b):
        n = int.from_bytes(b[p:p + 2], 'big'); p += 2
        end = p + n
        while p < end:
            t = int.from_bytes(b[p:p + 2], 'big'); ln = int.from_bytes(b[p + 2:p + 4], 'big'); body = b[p + 4:p + 4 + ln]; p += 4 + ln
            exts.append(t)
            if t == 10:
                k = int.from_bytes(body[:2], 'big')
                groups = [int.from_bytes(body[i:i + 2], 'big') for i in range(2, 2 + k, 2)]
            elif t == 11:
                formats = list(body[1:1 + body[0]])
    j = lambda xs, g: '-'.join(str(x) for x in xs if x not in g)
    return ','.join([str(version), j(ciphers, GREASE2), j(exts, GREASE2), j(groups, GREASE2), j(formats, GREASE1)])


def build_native(vals, template):
    from cryptodatahub.tls.version import TlsVersion
    from cryptodatahub.tls.algorithm import TlsCipherSuite, TlsNamedCurve, TlsECPointFormat
    from cryptoparser.tls.version import TlsProtocolVersion
    from cryptoparser.tls.subprotocol import TlsHandshakeClientHello
    from cryptoparser.tls.extension import TlsExtensionUnparsed, TlsExtensionEllipticCurves, TlsExtensionECPointFormats
    from cryptoparser.tls.grease import TlsInvalidTypeTwoByte, TlsInvalidTypeOneByte

    def item(enum_cls, fb, c):
        for m in enum_cls:
            if m.value.code == c:
                return m
        return fb(c)
    suites = [item(TlsCipherSuite, TlsInvalidTypeTwoByte, vals[k]) for k in ('suite_0', 'suite_1') if k in vals]
    exts = []
    for k, t in enumerate(TEMPLATES[template]):
        if t == 'v':
            from cryptoparser.tls.extension import TlsExtensionSupportedVersionsClient
            exts.append(TlsExtensionSupportedVersionsClient([TlsProtocolVersion(vals.get('supported_version_%d' % k, TlsVersion.TLS1_3))]))
        elif t == 'u':
            exts.append(TlsExtensionUnparsed(TlsInvalidTypeTwoByte(vals.get('ext_type_%d' % k, 0xff01)), b''))
        elif t[0] == 'g':
            cs = [vals[n] for n in ('group_%d_0' % k, 'group_%d_1' % k) if n in vals]
            exts.append(TlsExtensionEllipticCurves([item(TlsNamedCurve, TlsInvalidTypeTwoByte, c) for c in cs]))
        else:
            cs = [vals[n] for n in ('format_%d_0' % k, 'format_%d_1' % k) if n in vals]
            exts.append(TlsExtensionECPointFormats([item(TlsECPointFormat, TlsInvalidTypeOneByte, c) for c in cs]))
    version = vals.get('version', TlsVersion.TLS1_2)
    return TlsHandshakeClientHello(suites, protocol_version=TlsProtocolVersion(version), extensions=exts,
                                   fallback_scsv=bool(vals.get('fallback_scsv', False)),
                                   empty_renegotiation_info_scsv=bool(vals.get('empty_renegotiation_info_scsv', False)))


def native_check(vals, template, grease_known=False, scsv_known=False):
    from cryptoparser.tls.subprotocol import TlsHandshakeClientHello
    try:
        o = build_native(vals, template)
        wire = bytes(o.compose())
    except Exception:
        return dict(reproduced=False)
    if grease_known and any(vals.get(k) in GREASE2 for k in ('suite_0', 'suite_1')):
        return dict(reproduced=False)
    if scsv_known and (vals.get('fallback_scsv') or vals.get('empty_renegotiation_info_scsv')):
        return dict(reproduced=False)
    want = ja3_from_bytes(wire)
    call = 'TlsHandshakeClientHello.parse_exact_size(bytes.fromhex(%r)).ja3()' % wire.hex()
    try:
        got = TlsHandshakeClientHello.parse_exact_size(wire).ja3()
    except Exception as ex:
        return dict(reproduced=True, call=call, expected=want, observed=repr(ex)[:160], key='ja3')
    if got != want or o.ja3() != want:
        return dict(reproduced=True, call=call, expected=want, observed='%s (object before compose: %s)' % (got, o.ja3()), key='ja3')
    return dict(reproduced=False)


def _vals(inputs):
    from cryptodatahub.tls.version import TlsVersion
    vals = {}
    for k, v in inputs.items():
        if isinstance(v, bool) or isinstance(v, int):
            vals[k] = v
        elif isinstance(v, dict) and 'member' in v and (k == 'version' or k.startswith('supported_version_')):
            vals[k] = TlsVersion[v['member']]
    return vals


def replay_for(template, gk, sk):
    def replay(inputs):
        return native_check(_vals(inputs), inputs.get('template', template), gk, sk)
    return replay


def search_for(template, gk, sk):
    def search(seed, hints=()):
        import random
        from cryptodatahub.tls.version import TlsVersion
        rnd = random.Random(seed)
        pool2 = [0x0a0a, 0xfafa, 0x1a1a, 0x0a1a, 0x1a2a, 0x002f, 0xc02f, 0x1301, 0x0017, 0x001d, 0x11ec, 0x000f, 0xfe0d, 0x0a0b, 0xff01]
        pool1 = [0, 1, 2, 3, 0x0b, 0x2a, 0x0a, 0xe4, 0xff]
        for _ in range(400):
            vals = dict(suite_0=rnd.choice(pool2 + [rnd.randrange(65536)]), version=rnd.choice(list(TlsVersion)),
                        fallback_scsv=rnd.random() < 0.3, empty_renegotiation_info_scsv=rnd.random() < 0.3)
            if rnd.random() < 0.5:
                vals['suite_1'] = rnd.choice(pool2)
            vals['supported_version_0'] = rnd.choice(list(TlsVersion))
            for k in range(3):
                vals['ext_type_%d' % k] = rnd.choice([c for c in pool2 + [rnd.randrange(65536)] if c not in (10, 11)])
                vals['group_%d_0' % k] = rnd.choice(pool2)
                vals['format_%d_0' % k] = rnd.choice(pool1)
                if rnd.random() < 0.5:
                    vals['group_%d_1' % k] = rnd.choice(pool2)
                    vals['format_%d_1' % k] = rnd.choice(pool1)
            if any(vals.get(k) in (0x5600, 0x00ff) for k in ('suite_0', 'suite_1')):
                continue
            w = native_check(vals, template, gk, sk)
            if w.get('reproduced'):
                return w
        return dict(reproduced=False)
    return search


def w_grease():
    return native_check(dict(suite_0=0x0a0a, suite_1=0xc02f), 'none')


def w_scsv():
    return native_check(dict(suite_0=0xc02f, empty_renegotiation_info_scsv=True), 'none')


def _units_body(tier, seed):
    gk, sk = listed(KF_GREASE), listed(KF_SCSV)
    out = []
    for t in TEMPLATES:
        out.append(Unit('ja3/%s' % t, ja3_unit(t, gk, sk), replay=replay_for(t, gk, sk), search=search_for(t, gk, sk), clause='JA3',
                        functions=['TlsHandshakeClientHello.ja3', 'TlsInvalidTypeBase.__attrs_post_init__']))
    from checks import foundation, hello
    out.append(hello.unit(('K6', 'K3'), 'K6+K3: wire view and parse(compose(o)) == o'))
    from checks import helloext
    out.append(helloext.unit())          # the order of the extensions survives compose (JA3 after a round trip)
    return out + foundation.units(tier, seed)



def units(tier, seed):
    from checks import canary
    return list(_units_body(tier, seed)) + [canary.ja3_constant()]


FINDING_REPLAYS = {KF_GREASE: w_grease, KF_SCSV: w_scsv}
