# Foundation units: every sidecar contract that the class-level explorations *apply* is verified against its real body
# here ("a used-but-unverified contract is an error of the run", DESIGN.md 2.4). Each property check that relies on
# contracts includes these units, so a change inside a primitive or container fails the primitive's own obligation in
# every check whose proof used its contract.
import z3

from cryptoparser.common.parse import ParserBinary, ComposerBinary, ByteOrder

from pyvc import values as V, engine as E, interp as I, ops, vc
from pyvc.runner import Unit
from pyvc.values import SObj, SInt
from contracts import common_parse as CP
from checks import common, e1


def refine_derived_array(ics, fb):
    fn = ParserBinary._parse_parsable_derived_array

    def thunk():
        P = E.cur()
        p, facts = V.base_seq('p')
        for f in facts:
            P.assume(f)
        pl = z3.Int('pl')
        P.assume(z3.And(pl >= 0, pl <= p.n))
        s = z3.Int('items_size')
        P.assume(s >= 0)
        P.inputs.update(parsable=p, parsed_length=SInt(pl), items_size=SInt(s))
        o = SObj(ParserBinary, dict(_parsable=p, _parsed_length=SInt(pl), _parsed_values={}, byte_order=ByteOrder.NETWORK))
        o1, o2 = vc.clone(o), vc.clone(o)
        got = common.run_body(fn, [o1, SInt(s), ics, fb])
        want = vc.outcome_of(lambda: CP.spec_parse_parsable_derived_array(o2, SInt(s), ics, fb))
        vc.oblige_same_outcome(P, 'outcome', got, want)
        vc.oblige_equal(P, 'parser state', o1.f, o2.f)
    return lambda: (e1.setup(), vc.run_unit('refine', thunk))[1]


def search_derived_array(ics, fb):
    def search(seed, hints=()):
        """native cross-check of the contract on small buffers: the items are the successive fixed-width codes"""
        import random
        rnd = random.Random(seed)
        ic = ics[0]
        for _ in range(300):
            n = rnd.randrange(0, 9)
            data = bytes(rnd.choice((0, 1, 2, 0x0a, 0x7f, 0xff, rnd.randrange(256))) for _ in range(n))
            size = rnd.randrange(0, n + 2)
            call = 'ParserBinary(%r)._parse_parsable_derived_array(%d, [%s], %s)' % (data, size, ic.__name__, getattr(fb, '__name__', None))
            try:
                items, consumed = ParserBinary(data)._parse_parsable_derived_array(size, list(ics), fb)
            except Exception:
                continue
            if consumed != size or size > len(data):
                return dict(reproduced=True, call=call, expected='consumed == items_size <= len', observed='consumed %d' % consumed)
            wire = b''.join(bytes(x.compose()) for x in items)
            if wire != data[:size]:
                return dict(reproduced=True, call=call, expected='items re-encode to %s' % data[:size].hex(), observed=wire.hex())
        return dict(reproduced=False)
    return search


def refine_mpint(off, neg):
    fn = ParserBinary._parse_mpint

    def thunk():
        P = E.cur()
        p, facts = V.base_seq('p')
        for f in facts:
            P.assume(f)
        pl = z3.Int('pl')
        P.assume(z3.And(pl >= 0, pl <= p.n))
        L = z3.Int('L')
        P.assume(L >= 0)
        P.inputs.update(parsable=p, parsed_length=SInt(pl), mpint_length=SInt(L))
        ng = V.SBool(z3.Bool('negative')) if neg == 'sym' else neg
        o = SObj(ParserBinary, dict(_parsable=p, _parsed_length=SInt(pl), _parsed_values={}, byte_order=ByteOrder.NETWORK))
        o1, o2 = vc.clone(o), vc.clone(o)
        got = common.run_body(fn, [o1, SInt(L), off, ng])
        want = vc.outcome_of(lambda: CP.spec_parse_mpint_for_refinement(o2, SInt(L), off, ng))
        vc.oblige_same_outcome(P, 'outcome', got, want)
        vc.oblige_equal(P, 'parser state', o1.f, o2.f)
    return lambda: (e1.setup(), vc.run_unit('refine', thunk))[1]


def refine_compose_array(fac, fb, w, n):
    """ComposerBinary.compose_parsable_array: the real body (item.compose() of every item, joined) against its contract for
    a sequence of n coded items with symbolic codes (known members, GREASE and unknown fallback items alike); the contract
    also has to predict the AttributeError of members that have no compose() method"""
    from contracts.common_base import coded_spec
    from cryptoparser.common.parse import ComposerBinary
    fn = ComposerBinary.compose_parsable_array

    def thunk():
        P = E.cur()
        sp = coded_spec(fac.get_enum_class(), fb, w)
        codes = [z3.Int('code_%d' % i) for i in range(n)]
        for c in codes:
            P.assume(z3.And(c >= 0, c < 256 ** w))
        P.inputs['codes'] = [SInt(c) for c in codes]
        items = [I.materialize(V.SCoded(sp, c)) for c in codes]
        c1, c2 = I.construct(ComposerBinary, [], {}), I.construct(ComposerBinary, [], {})
        got = common.run_body(fn, [c1, items])
        at = (lambda j: z3.IntVal(0)) if n == 0 else (lambda j, cs=codes: z3.If(j == 0, cs[0], cs[-1]))
        seq = V.SSeq(z3.IntVal(n), at, 'list', ('coded', sp))
        want = vc.outcome_of(lambda: CP.spec_compose_parsable_array(c2, seq))
        vc.oblige_same_outcome(P, 'outcome', got, want)
        vc.oblige_equal(P, 'composer state', c1.f, c2.f)

    def run():
        e1.setup()
        r = vc.run_unit('refine', thunk, max_paths=400)
        r.extra['bounded'] = ['sequence of exactly %d item(s); every code symbolic over its code space' % n]
        return r
    return run


def units(tier, seed, include_numeric=True, include_enum=True):
    from cryptoparser.tls.ciphersuite import TlsCipherSuiteFactory, SslCipherKindFactory
    from cryptoparser.tls.subprotocol import TlsCompressionMethodFactory
    from cryptoparser.tls.version import TlsProtocolVersion
    from cryptoparser.tls.grease import TlsInvalidTypeOneByte, TlsInvalidTypeTwoByte
    out = []
    if include_numeric:
        from checks import c11
        for u in c11.numeric_units():
            u.name = 'foundation/' + u.name
            u.run = (lambda run: (lambda: (e1.setup(), run())[1]))(u.run)
            out.append(u)
    if include_enum:
        from checks import c10
        for fac in c10.factories():
            out.append(Unit('foundation/refine/NByteEnumParsable._parse[%s]' % fac.__name__, c10.refine_unit(fac),
                            clause='contract refinement', functions=['NByteEnumParsable._parse']))
    for ics, fb in (([TlsCompressionMethodFactory], TlsInvalidTypeOneByte), ([SslCipherKindFactory], None),
                    ([TlsProtocolVersion], TlsInvalidTypeTwoByte), ([TlsCipherSuiteFactory], TlsInvalidTypeTwoByte)):
        out.append(Unit('foundation/refine/_parse_parsable_derived_array[%s,%s]' % (ics[0].__name__, getattr(fb, '__name__', None)),
                        refine_derived_array(ics, fb), search=search_derived_array(ics, fb), clause='contract refinement',
                        functions=['ParserBinary._parse_parsable_derived_array']))
    for fac, fb, w in ((TlsCipherSuiteFactory, TlsInvalidTypeTwoByte, 2), (TlsCompressionMethodFactory, TlsInvalidTypeOneByte, 1)):
        for n in (0, 1, 2):
            out.append(Unit('foundation/refine/compose_parsable_array[%s,n=%d]' % (fac.__name__, n), refine_compose_array(fac, fb, w, n),
                            clause='contract refinement', functions=['ComposerBinary.compose_parsable_array']))
    for off in (0, 4):
        for neg in (False, 'sym'):
            out.append(Unit('foundation/refine/_parse_mpint[offset=%d,negative=%s]' % (off, neg), refine_mpint(off, neg),
                            clause='contract refinement', functions=['ParserBinary._parse_mpint']))
    return out
