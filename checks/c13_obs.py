def units(tier, seed):
    return []
