# E2: a symbolic valid object is composed, the bytes (followed by arbitrary other bytes) are parsed again.
#   K3  the parser accepts, consumes exactly the composed bytes, and returns an equal object          (C01)
#   K9  compose() leaves the object unchanged, on success and on failure                               (C13)
import z3

from pyvc import values as V, engine as E, interp as I, ops, vc, gen, frame as F
from checks import common, e1

NOT_SELF_DELIMITING = ('TlsApplicationDataMessage', 'DnsRecordDs', 'DnsRecordDnskey', 'DnsRecordRrsig', 'DnsRecordTxt',
                       'DnsRecordMx', 'OpenVpnPacketControlV1', 'OpenVpnPacketVariant')       # classes that by design read to the end of the buffer (RDATA)


def setup():
    e1.setup()
    from contracts import nested
    nested.ABSTRACT_DISABLED = True          # E2 needs the contents of nested objects: they are interpreted
    F.DEFAULT_BOUND = None
    F.BOUNDS[('DnsRecordTxt.compose', 0)] = 3          # text of up to 765 octets (3 character-strings): bounded stand-in
    from contracts import hints
    hints.register()


def roundtrip_thunk(cls, with_rest=True):
    def thunk():
        P = E.cur()
        P.top_class = cls
        from cryptoparser.common import base as RB
        if issubclass(cls, RB.VariantParsableBase):
            # a dispatcher: its parser returns the variant object itself, so the round trip is stated on the variants
            obj = gen.make_one_of(P, list(cls._get_variant_types()), 'o', 1)
        elif issubclass(cls, RB.OpaqueEnumParsable):
            # a factory of enum members (the members compose themselves)
            obj = gen.make(P, ('enum', cls.get_enum_class()), 'o', 1)
        else:
            obj = gen.sym_object(P, cls, 'o')
        P.inputs['object'] = obj
        from checks import regions
        regions.exclude(P, obj)
        snapshot = vc.clone(obj)
        out = vc.outcome_of(lambda: I.call(I.getattr_(obj, 'compose'), [], {}))
        vc.oblige_equal(P, 'K9 %s.compose() leaves the object unchanged (%s)' % (cls.__name__, out.describe()), obj, snapshot)
        if out.kind == 'raise':
            # outside Valid_C; the only admissible rejections are the library's own errors
            e1.record_path_fact(P, 'compose rejects only with InvalidValue/InvalidType/data-length errors (got %s)'
                                % out.value.cls.__name__, issubclass(out.value.cls, e1.FOUR))
            raise E.PathEnd()
        wire = out.value
        if not isinstance(wire, (V.SSeq, bytes, bytearray)):
            e1.record_path_fact(P, 'compose returns bytes', False)
            return
        wire = ops.as_seq(wire)
        P.inputs['wire'] = wire
        k6(P, cls, obj, wire)
        regions.exclude(P, obj, clause='K3')          # regions that concern the round trip only (K9 and K6 above still apply)
        if with_rest and cls.__name__ not in NOT_SELF_DELIMITING:
            rest, facts = V.base_seq('rest')
            for f in facts:
                P.assume(f)
            P.inputs['rest'] = rest
            buf = V.concat(wire, rest, 'bytes')
        else:
            buf = wire.copy('bytes')
        res = vc.outcome_of(lambda: I.call(cls.parse_immutable, [buf], {}))
        if res.kind != 'ret':
            e1.record_path_fact(P, 'K3 %s: the composed bytes are accepted by the parser (got %s)'
                                % (cls.__name__, res.value.cls.__name__), False)
            return
        o2, n = res.value
        P.oblige('K3 %s: the parser consumes exactly the composed bytes' % cls.__name__, ops.as_int(n) == wire.n)
        vc.oblige_equal(P, 'K3 %s: parsed object equals the original' % cls.__name__, o2, obj)
    return thunk


def compose_only_unit(cls):
    """K6 (and K9) alone, for a class whose round trip K3 is a listed known finding: symbolic object, real compose, the
    composed bytes against the specification function; the parser is not run"""
    def thunk():
        P = E.cur()
        P.top_class = cls
        obj = gen.sym_object(P, cls, 'o')
        P.inputs['object'] = obj
        out = vc.outcome_of(lambda: I.call(I.getattr_(obj, 'compose'), [], {}))
        if out.kind == 'raise':
            raise E.PathEnd()                   # outside the domain of compose: nothing is laid out (K6 says nothing)
        wire = ops.as_seq(out.value)
        P.inputs['wire'] = wire
        k6(P, cls, obj, wire)

    def run():
        setup()
        gen.BOUNDED_NOTES.clear()
        r = vc.run_unit(cls.__name__, thunk, max_paths=3000)
        if gen.BOUNDED_NOTES:
            r.extra['bounded'] = sorted(set(r.extra.get('bounded', [])) | gen.BOUNDED_NOTES)
        return r
    return run


def k6(P, cls, obj, wire):
    """clause K6: the composed bytes equal the specification encoding written from the protocol documents"""
    from spec import wire as W, tls, opptls, dns, ssh      # noqa: F401
    f = W.SPECS.get(cls.__name__)
    if f is None:
        return
    try:
        want = f(W.lift_deep(obj))
    except W.NoSpec as e:
        P.notes.append(('no-spec', str(e)))
        return
    from checks import regions
    with P.scope():
        try:
            regions.exclude(P, obj, clause='K6')
        except (E.Infeasible, E.PathEnd):
            # a listed K6 finding covers every object of this class: the layout is not stated (the finding's witness is
            # replayed natively on every run); the other clauses of the path go on
            P.notes.append(('k6-region', 'K6 of %s is a listed known finding for every object of the class' % cls.__name__))
            return
        vc.oblige_equal(P, 'K6 %s: composed bytes equal the encoding the specification prescribes' % cls.__name__,
                        wire.copy('bytes'), want)


def has_spec(cls):
    from spec import wire as W, tls, opptls, dns, ssh      # noqa: F401
    return cls.__name__ in W.SPECS


def full_unit(cls):
    setup()
    gen.BOUNDED_NOTES.clear()
    r = vc.run_unit(cls.__name__, roundtrip_thunk(cls), max_paths=3000)
    if gen.BOUNDED_NOTES:
        r.extra['bounded'] = sorted(set(r.extra.get('bounded', [])) | gen.BOUNDED_NOTES)
    return r


def cached_full_unit(cls):
    import os
    import pickle
    d = os.path.join(common.HERE, '.cache', 'e2', e1.source_digest())
    p = os.path.join(d, '%s.%s.pkl' % (cls.__module__, cls.__name__))
    if os.path.exists(p):
        try:
            with open(p, 'rb') as f:
                return pickle.load(f)
        except Exception:
            pass
    res = full_unit(cls)
    if not any(u.startswith('exploration exceeded') for u in res.unsupported):
        try:
            os.makedirs(d, exist_ok=True)
            tmp = p + '.%d.tmp' % os.getpid()
            with open(tmp, 'wb') as f:
                pickle.dump(res, f)
            os.replace(tmp, p)
        except Exception:
            pass
    return res


def clause_unit(cls, prefixes):
    """the obligations of the given clauses (name prefixes) out of the shared E2 exploration of cls"""
    def run():
        import copy
        res = cached_full_unit(cls)
        out = copy.copy(res)
        out.obligations = [o for o in res.obligations if o['name'].startswith(tuple(prefixes))
                           or o['kind'] in ('loop-entry', 'loop-step', 'budget', 'lemma')]
        return out
    return run


def roundtrip_unit(cls):
    return lambda: full_unit(cls)
