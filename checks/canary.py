# Vacuity guards: deliberately FALSE obligations stated through the same harnesses, preconditions and contracts as the real
# ones. Every check carries at least one; the runner requires each to FAIL (a canary that is discharged means that a
# precondition is contradictory, an exploration reaches no accepting path, or obligations are not generated at all).
import z3

from pyvc import values as V, engine as E, interp as I, ops, vc
from pyvc.runner import Unit
from checks import e1


def _unit(name, run):
    return Unit('canary/' + name, run, expect_fail=True, clause='vacuity guard')


def e1_accepts():
    """E1 harness: 'no buffer is accepted as a TLS alert' must fail (an accepting path is reachable)"""
    def run():
        from cryptoparser.tls.subprotocol import TlsAlertMessage as C
        e1.setup()

        def on_path(r):
            if r.kind == 'ret':
                e1.record_path_fact(r.path, 'canary: no buffer is accepted (must fail)', False)
        return e1.explore_parse(C, on_path, max_paths=200)
    return _unit('E1 reaches an accepting path', run)


def e2_layout():
    """E2 harness: 'a composed TLS alert is 3 bytes long' must fail (it is 2)"""
    def run():
        from cryptoparser.tls.subprotocol import TlsAlertMessage as C
        from pyvc import gen
        from checks import e2
        e2.setup()

        def thunk():
            P = E.cur()
            P.top_class = C
            o = gen.sym_object(P, C, 'o')
            wire = ops.as_seq(I.call(I.getattr_(o, 'compose'), [], {}))
            P.oblige('canary: a composed alert has 3 bytes (must fail)', wire.n == 3)
        return vc.run_unit('canary', thunk, max_paths=200)
    return _unit('E2 composes a symbolic object', run)


def key_tag_zero():
    def run():
        from checks import c08
        from cryptoparser.dnsrec.record import DnsRecordDnskey, DnsSecProtocol
        from cryptodatahub.dnsrec.algorithm import DnsSecAlgorithm
        from pyvc.values import SObj, SInt
        e1.setup()

        def thunk():
            P = E.cur()
            c08.register_keytag_contracts()
            rdata, facts = V.base_seq('rdata')
            for f in facts:
                P.assume(f)

            class _S(object):
                pass
            o = SObj(DnsRecordDnskey, dict(flags=[], algorithm=DnsSecAlgorithm.RSASHA256, protocol=DnsSecProtocol.V3,
                                           key=SObj(_S, dict(params=SObj(_S, dict(modulus=SInt(z3.Int('m'))))))))
            I.CONTRACTS[DnsRecordDnskey.compose] = lambda self: rdata.copy('bytearray')
            try:
                r = ops.as_int(I.call(DnsRecordDnskey.key_tag.fget, [o], {}))
            finally:
                I.CONTRACTS.pop(DnsRecordDnskey.compose, None)
            P.oblige('canary: every key tag is 0 (must fail)', r == 0)
        return vc.run_unit('canary', thunk, max_paths=50)
    return _unit('key tag is not constant', run)


def vector_append_noop():
    def run():
        from checks import c12
        e1.setup()
        vcls, param, w = [v for v in c12.fixed_vectors() if v[0].__name__ == 'TlsECPointFormatVector'][0]

        def thunk():
            P = E.cur()
            v, items0 = c12.sym_vector(P, vcls, param, w)
            x, xt = c12.sym_item(P, items0)
            out = vc.outcome_of(lambda: I.call(I.getattr_(v, 'append'), [x], {}))
            if out.kind == 'ret':
                P.oblige('canary: an accepted append leaves the length unchanged (must fail)', ops.as_seq(v.f['_items']).n == items0.n)
        return vc.run_unit('canary', thunk, max_paths=100)
    return _unit('an edit is accepted on some path', run)


def ja3_constant():
    def run():
        from checks import c15, e2
        from pyvc.values import SText
        e2.setup()

        def thunk():
            P = E.cur()
            o, wire = c15.sym_hello(P, 'none')
            got = I.call(I.getattr_(o, 'ja3'), [], {})
            c15.oblige_text_equal(P, 'canary: JA3 is the constant 771,,,, (must fail)', got, SText([('lit', '771,,,,')]))
        return vc.run_unit('canary', thunk, max_paths=400)
    return _unit('JA3 depends on the hello', run)


def hassh_wrong_digest():
    def run():
        from checks import c16
        from cryptoparser.ssh import subprotocol as SP
        from contracts import digests
        e1.setup()

        def thunk():
            P = E.cur()
            digests.register()
            v, view = c16.sym_names(P, SP.SshKexAlgorithmVector, 'kex', 'ku')
            got = I.call(SP.SshKeyExchangeInit._hassh, [[v, v, v, v]], {})
            want = c16.A('hex', of=c16.A('digest', hash='sha1', of=c16.joined([view, view, view, view])), lowercase=True, separator='')
            c16.tree_equal(P, 'canary: HASSH uses SHA-1 (must fail)', got, want)
        return vc.run_unit('canary', thunk, max_paths=50)
    return _unit('HASSH tree comparison can fail', run)


def padding_five():
    def run():
        from checks import e2
        from cryptoparser.ssh.record import SshRecordInit as C
        from pyvc.values import SObj
        e2.setup()
        from contracts import nested
        nested.ABSTRACT_DISABLED = False

        def thunk():
            P = E.cur()
            payload, facts = V.base_seq('payload', 'bytearray')
            for f in facts:
                P.assume(f)
            for k in range(8):
                if P.branch(payload.n % 8 == k):
                    break
            msg = SObj(C._get_variant_class())
            msg.abstract, msg.abstract_of, msg.abstract_id = True, C._get_variant_class(), V.fresh_int('obj')
            msg.f['_abs_compose'] = payload
            wire = ops.as_seq(I.call(I.getattr_(SObj(C, dict(packet=msg)), 'compose'), [], {}))
            P.oblige('canary: SSH padding is always at least 5 bytes (must fail)', wire.at(4) >= 5)
        return vc.run_unit('canary', thunk, max_paths=50)
    return _unit('SSH padding of 4 bytes is reachable', run)


def numeric_off_by_one():
    def run():
        from cryptoparser.common.parse import ComposerBinary
        e1.setup()

        def thunk():
            P = E.cur()
            v = z3.Int('v')
            P.assume(z3.And(v >= 0, v < 256))
            c = I.construct(ComposerBinary, [], {})
            I.call(I.getattr_(c, 'compose_numeric'), [V.SInt(v), 1], {})
            wire = ops.as_seq(I.getattr_(c, 'composed_bytes'))
            P.oblige('canary: compose_numeric(v, 1) writes v + 1 (must fail)', wire.at(0) == v + 1)
        return vc.run_unit('canary', thunk, max_paths=20)
    return _unit('numeric composition is observed', run)


def decode_first_member():
    def run():
        from cryptoparser.tls.subprotocol import TlsCompressionMethodFactory as F_
        e1.setup()

        def thunk():
            P = E.cur()
            buf, facts = V.base_seq('buf')
            for f in facts:
                P.assume(f)
            P.top_class = F_
            m, n = I.call(F_.parse_immutable, [buf], {})
            idx = ops.enum_index(m) if not isinstance(m, V.SEnum) else m.idx
            P.oblige('canary: every decoded compression method is the first member (must fail)', idx == 0)
        return vc.run_unit('canary', thunk, max_paths=50)
    return _unit('decoding distinguishes members', run)


def progress_two_bytes():
    def run():
        from checks import c19
        from cryptoparser.tls.extension import TlsExtensionVariantClient, TlsExtensionUnparsed
        from pyvc import frame as F
        orig = c19.register_progress_contracts

        def patched():
            orig()
            F.LOOPS[('ParserBinary._parse_parsable_derived_array', 0)].step = 2      # false: an item may consume one byte
        c19.register_progress_contracts = patched
        try:
            return c19.derived_array_unit([TlsExtensionVariantClient], TlsExtensionUnparsed)()
        finally:
            c19.register_progress_contracts = orig
    return _unit('an item may consume a single byte', run)
