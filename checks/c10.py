# C10 -- every wire code point is decoded faithfully or preserved verbatim
#   refine/<Factory>   NByteEnumParsable._parse refines its contract "first member whose code equals the input, else
#                      InvalidValue" for the WHOLE code space (symbolic code, loop contract over the member table)
#   decode/<Factory>   for every code: the decoded member carries that code and re-encodes to the same bytes
#   vector/<Vector>    coded vectors: parse(prefix ++ codes) keeps every item, compose() returns the same bytes,
#                      unknown codes are preserved in fallback items, GREASE classified iff the code is a GREASE code
#   table/<Enum>       ground obligations on the installed tables: distinct members carry distinct codes (allow-list
#                      for numbers the protocol itself assigns twice), from_code(code(m)) is m
import enum
import inspect

import z3

from cryptodatahub.common.exception import InvalidValue
from cryptodatahub.common.types import CryptoDataEnumCodedBase
from cryptoparser.common import base as RB
from cryptoparser.common.exception import NotEnoughData

from pyvc import values as V, engine as E, interp as I, ops, vc, spec as S
from pyvc.runner import Unit
from pyvc.values import SSeq, SEnum, SObj
from contracts import common_base as CB
from checks import common, e1, census

TRUSTED_BASE = common.TRUSTED_BASE
ASSUMPTIONS = common.ASSUMPTIONS + [
    'cryptodatahub code tables are taken as installed; their agreement with the IANA registries is not checked',
]
UNCOVERED = []
BOUNDED = []

# one number assigned to two names by the protocol itself (RFC 4419 section 5 reuses 31 for two messages)
ALLOWED_SHARED_CODES = {('SshMessageCode', 0x1f)}


def factories():
    out = []
    for c in census.concrete_parsables():
        if issubclass(c, RB.NByteEnumParsable) and not inspect.isabstract(c) or \
                (issubclass(c, RB.NByteEnumParsable) and getattr(c, 'get_enum_class', None) and not c.__abstractmethods__ - {'compose'}):
            try:
                c.get_enum_class(), c.get_byte_num()
            except Exception:
                continue
            out.append(c)
    # factories are abstract (compose is abstract): collect them from the subclass tree as well
    seen = set(out)
    for c in census.subclasses(RB.NByteEnumParsable):
        if c in seen or not c.__module__.startswith('cryptoparser.'):
            continue
        try:
            ecls, w = c.get_enum_class(), c.get_byte_num()
        except Exception:
            continue
        if isinstance(ecls, type) and issubclass(ecls, enum.Enum):
            out.append(c)
            seen.add(c)
    out.sort(key=lambda c: (c.__module__, c.__name__))
    return out


def refine_unit(fac):
    fn = RB.NByteEnumParsable._parse.__func__

    def thunk():
        P = E.cur()
        buf, facts = V.base_seq('buf')
        for f in facts:
            P.assume(f)
        P.inputs['buf'] = buf
        got = common.run_body(fn, [fac, buf])
        want = vc.outcome_of(lambda: CB.spec_nbyte_enum_parse(fac, buf))
        vc.oblige_same_outcome(P, 'outcome', got, want)
    return lambda: (e1.setup(), vc.run_unit(fac.__name__, thunk))[1]


def decode_unit(fac):
    def thunk():
        P = E.cur()
        w = fac.get_byte_num()
        ecls = fac.get_enum_class()
        code = z3.Int('code')
        P.assume(z3.And(code >= 0, code < 256 ** w))
        P.inputs['code'] = V.SInt(code)
        rest, facts = V.base_seq('rest')
        for f in facts:
            P.assume(f)
        wire = S.enc(code, w, '!')
        out = vc.outcome_of(lambda: I.call(fac.parse_immutable, [V.concat(wire, rest, 'bytes')], {}))
        sp = CB.coded_spec(ecls, None, w)
        if out.kind == 'raise':
            e1.record_path_fact(P, 'an unassigned code is rejected with InvalidValue (got %s)' % out.value.cls.__name__,
                                out.value.cls is InvalidValue)
            P.oblige('rejected only when no member carries the code', z3.Not(sp.known(code)))
            return
        m, n = out.value
        P.oblige('decoding consumes exactly the code width', ops.as_int(n) == w)
        mcode = ops.as_int(I.getattr_(I.getattr_(m, 'value'), 'code'))
        P.oblige('the decoded member carries the code that was on the wire', mcode == code)
        if hasattr(ecls, 'compose') or any('compose' in k.__dict__ for k in type.mro(ecls)):
            back = I.call(I.getattr_(m, 'compose'), [], {})
            vc.oblige_equal(P, 'the decoded member re-encodes to the same bytes', ops.as_seq(back).copy('bytes'), wire)
    return lambda: (e1.setup(), vc.run_unit(fac.__name__, thunk))[1]


def coded_vectors():
    from contracts.common_parse import coded_kind
    from cryptoparser.common.utils import get_leaf_classes
    out = []
    for c in census.concrete_parsables():
        if not issubclass(c, RB.ArrayBase):
            continue
        try:
            param = c.get_param()
        except Exception:
            continue
        ic, fb = getattr(param, 'item_class', None), getattr(param, 'fallback_class', None)
        if not isinstance(ic, type):
            continue
        for classes in ([ic], get_leaf_classes(ic)):
            sp = coded_kind(list(classes), fb)
            if sp is not None:
                out.append((c, param, sp))
                break
    return out


def vector_unit(vcls, param, sp):
    def thunk():
        P = E.cur()
        w, lw = sp.width, param.item_num_size
        codes, facts = V.base_seq('codes', 'list', byte_valued=False)
        for f in facts:
            P.assume(f)
        j = z3.Int('j!q')
        P.assume(z3.ForAll([j], z3.And(codes.at(j) >= 0, codes.at(j) < 256 ** w)))
        P.assume(z3.And(codes.n * w >= param.min_byte_num, codes.n * w <= param.max_byte_num, codes.n * w < 256 ** lw))
        P.inputs['codes'] = codes
        body = S.flat_enc(codes, w, '!', 'bytes')
        wire = V.concat(S.enc(codes.n * w, lw, '!'), body, 'bytes')
        rest, facts = V.base_seq('rest')
        for f in facts:
            P.assume(f)
        out = vc.outcome_of(lambda: I.call(vcls.parse_immutable, [V.concat(wire, rest, 'bytes')], {}))
        if out.kind == 'raise':
            if sp.fallback_cls is None:
                e1.record_path_fact(P, 'a vector without fallback rejects unknown codes with InvalidValue (got %s)'
                                    % out.value.cls.__name__, out.value.cls is InvalidValue)
                k = V.fresh_int('k')
                # rejected only if some code is unassigned: prove the contrapositive on this path
                P.oblige('rejection implies an unassigned code is present',
                         z3.Not(z3.ForAll([j], z3.Implies(z3.And(j >= 0, j < codes.n), sp.known(codes.at(j))))))
            else:
                e1.record_path_fact(P, 'a coded vector with a fallback class accepts every code sequence (got %s)'
                                    % out.value.cls.__name__, False)
            return
        vec, n = out.value
        P.oblige('the vector consumes prefix and all items', ops.as_int(n) == wire.n)
        items = vec.f['_items']
        P.oblige('no item is dropped or added', ops.as_seq(items).n == codes.n if isinstance(items, SSeq) else z3.BoolVal(False))
        i = V.fresh_int('i')
        P.assume(z3.And(i >= 0, i < codes.n))
        item = I.seq_elem(items, i)
        icode = ops.as_int(I.getattr_(I.getattr_(item, 'value'), 'code')) if sp.wrap_known is None else None
        if icode is not None:
            P.oblige('item i carries the i-th code of the wire', icode == codes.at(i))
        back = I.call(I.getattr_(vec, 'compose'), [], {})
        vc.oblige_equal(P, 'compose() reproduces the wire bytes (unknown and GREASE codes preserved)',
                        ops.as_seq(back).copy('bytes'), wire)
        if sp.fallback_cls is not None:
            from cryptoparser.tls.grease import TlsInvalidType
            gre = [m.value.code for m in sp.fallback_cls.get_grease_enum()]
            is_fb = I.isinstance_(item, sp.fallback_cls)
            if ops.truth(is_fb):
                vt = I.getattr_(I.getattr_(item, 'value'), 'value_type')
                is_grease = ops.bool_expr(ops.eq_values(vt, TlsInvalidType.GREASE))
                P.oblige('a fallback item is classified GREASE iff its code is a GREASE code',
                         is_grease == z3.Or(*[codes.at(i) == g for g in gre]))
                P.oblige('a fallback item carries an unassigned code', z3.Not(sp.known(codes.at(i))))
    return lambda: (e1.setup(), vc.run_unit(vcls.__name__, thunk))[1]


def table_unit(ecls, name):
    """ground obligations on an installed table, decided natively (finite and complete)"""
    def run():
        res = vc.UnitResult(name)
        ms = list(ecls)
        seen = {}
        ok = True

        def ob(n, holds, detail=None):
            res.obligations.append(dict(name=n, kind='ground', status='proved' if holds else 'failed', detail=detail, where=None, seconds=0))
        for mname, m in ecls.__members__.items():          # __members__ lists alias names as well
            code = m.value.code if hasattr(m.value, 'code') else m.value
            key = code if not isinstance(code, (bytes, bytearray)) else bytes(code)
            seen.setdefault(key, []).append(mname)
        names = {n: m for n, m in ecls.__members__.items()}
        shared = {k: v for k, v in seen.items() if len(set(v)) > 1 and (ecls.__name__, k) not in ALLOWED_SHARED_CODES}
        ob('%s: distinct names carry distinct codes' % ecls.__name__, not shared,
           dict(inputs=dict(enum=ecls.__name__, shared={str(k): v for k, v in shared.items()})) if shared else None)
        if issubclass(ecls, CryptoDataEnumCodedBase):
            bad = [m.name for m in ms if ecls.from_code(m.value.code) is not m]
            ob('%s: from_code(code(m)) is m for every member' % ecls.__name__, not bad, dict(inputs=dict(members=bad)) if bad else None)
        res.paths = 1
        return res
    return run


def table_replay(ecls):
    def replay(inputs):
        seen = {}
        for n, m in ecls.__members__.items():
            code = m.value.code if hasattr(m.value, 'code') else m.value
            seen.setdefault(code, []).append(n)
        shared = {k: v for k, v in seen.items() if len(v) > 1 and (ecls.__name__, k) not in ALLOWED_SHARED_CODES}
        if shared:
            k, v = sorted(shared.items(), key=lambda kv: str(kv[0]))[0]
            return dict(reproduced=True, call='%s.%s.value == %s.%s.value' % (ecls.__name__, v[0], ecls.__name__, v[1]),
                        expected='distinct codes', observed='both %r' % (k,), key='shared code %s' % (k,))
        return dict(reproduced=False)
    return replay


def int_enums():
    """IntEnum tables used as converters on the wire (content/handshake/alert types, ...)"""
    out = []
    for m in census.all_modules():
        for k, v in vars(m).items():
            if isinstance(v, type) and issubclass(v, enum.IntEnum) and v.__module__ == m.__name__ and v not in out:
                out.append(v)
    return out


def coded_enums():
    out = []
    for fac in factories():
        e = fac.get_enum_class()
        if e not in out:
            out.append(e)
    return out


def opaque_name_unit(cls):
    """string-coded names (ALPN / NPN): the real _parse on an arbitrary buffer; whenever it returns a member, the real
    compose() of that member gives back exactly the bytes that were consumed (a name differing in case, padding or
    encoding is never mapped to a registered member)"""
    def thunk():
        P = E.cur()
        buf, facts = V.base_seq('buf')
        for f in facts:
            P.assume(f)
        P.inputs['buf'] = buf
        P.buf = buf
        P.top_class = cls
        m, n = I.call(cls.parse_immutable, [buf], {})
        from cryptoparser.common.parse import ComposerBinary
        size = cls.get_param().item_num_size

        def recompose():
            # how the library writes a name item (VectorEnumCodeString.compose): length prefix + the member's code
            c = I.construct(ComposerBinary, [], {})
            I.call(I.getattr_(c, 'compose_string_enum_coded'), [m, size], {})
            return I.getattr_(c, 'composed_bytes')
        out = vc.outcome_of(recompose)
        if out.kind != 'ret':
            from checks import e1 as _e1
            _e1.record_path_fact(P, 'C10 %s: the decoded member composes (raised %s)' % (cls.__name__, out.value.cls.__name__), False)
            return
        vc.oblige_equal(P, 'C10 %s: the decoded member re-encodes to exactly the bytes that were consumed' % cls.__name__,
                        ops.as_seq(out.value).copy('bytes'), V.slice_seq(buf, 0, ops.as_int(n)).copy('bytes'))

    def native(data):
        try:
            m, n = cls.parse_immutable(data)
        except Exception:
            return dict(reproduced=False)
        from cryptoparser.common.parse import ComposerBinary
        c = ComposerBinary()
        c.compose_string_enum_coded(m, cls.get_param().item_num_size)
        w = bytes(c.composed_bytes)
        if w != bytes(data[:n]):
            return dict(reproduced=True, call='%s.parse_immutable(bytes.fromhex(%r))[0] written back with compose_string_enum_coded' % (cls.__name__, bytes(data).hex()),
                        expected=bytes(data[:n]).hex(), observed=w.hex(), key='name not preserved')
        return dict(reproduced=False)

    def replay(inputs):
        from checks import e1 as _e1
        data = _e1.bytes_of(inputs)
        return native(data) if data is not None else dict(reproduced=False)

    def search(seed, hints=()):
        for m in cls.get_enum_class():
            name = m.value.code
            for variant in (name.upper(), name.capitalize(), name + ' ', ' ' + name, name.swapcase()):
                try:
                    raw = variant.encode('utf-8')
                except Exception:
                    continue
                if len(raw) < 256:
                    w = native(bytes([len(raw)]) + raw)
                    if w.get('reproduced'):
                        return w
        return dict(reproduced=False)

    def run():
        from checks import e1 as _e1
        _e1.setup()
        return vc.run_unit(cls.__name__, thunk, max_paths=2000)
    return Unit('names/%s' % cls.__name__, run, replay=replay, search=search, clause='C10 string-coded names',
                functions=['OpaqueEnumParsable._parse[%s]' % cls.__name__, 'OpaqueEnumComposer.compose'])


def KF_DECLARED_LISTED():
    import json, os
    from checks import common as _c
    p = os.path.join(_c.HERE, 'known_findings.json')
    return any(f.get('id') == 'KF-C10-name-list-declared-length' for f in json.load(open(p)).get('findings', []))


def w_name_list_declared():
    from cryptoparser.ssh.subprotocol import SshKexAlgorithmVector
    data = bytes.fromhex('0100000000')
    try:
        v, n = SshKexAlgorithmVector.parse_immutable(data)
    except Exception as ex:
        return dict(reproduced=False, observed='rejected: %r' % (ex,))
    return dict(reproduced=True, observed='accepted %d octets, items %r, composes to %s' % (n, list(v), bytes(v.compose()).hex()))


def name_list_unit(vcls):
    """SSH name-lists (RFC 4251 5): whatever the list parser accepts is preserved verbatim - known names decode to the member
    carrying exactly that name, unknown names are kept as they were received - so composing the parsed list gives back the
    consumed bytes. The scanning loops of the text parser are explored up to the loop bound (short names): bounded unit."""
    def thunk():
        P = E.cur()
        buf, facts = V.base_seq('buf')
        for f in facts:
            P.assume(f)
        P.inputs['buf'] = buf
        P.buf = buf
        P.top_class = vcls
        v, n = I.call(vcls.parse_immutable, [buf], {})
        if KF_DECLARED_LISTED():
            # listed finding: a declared body length beyond the bytes present (replayed natively on every run)
            P.assume(S.dec(buf.at, 0, 4, '!') <= buf.n - 4)
        out = vc.outcome_of(lambda: I.call(I.getattr_(v, 'compose'), [], {}))
        from checks import e1 as _e1
        if out.kind != 'ret':
            _e1.record_path_fact(P, 'C10 %s: the parsed name-list composes (raised %s)' % (vcls.__name__, out.value.cls.__name__), False)
            return
        vc.oblige_equal(P, 'C10 %s: the parsed name-list re-encodes to exactly the bytes that were consumed' % vcls.__name__,
                        ops.as_seq(out.value).copy('bytes'), V.slice_seq(buf, 0, ops.as_int(n)).copy('bytes'))

    def native(data):
        try:
            v, n = vcls.parse_immutable(data)
        except Exception:
            return dict(reproduced=False)
        if KF_DECLARED_LISTED() and len(data) >= 4 and int.from_bytes(bytes(data[:4]), 'big') > len(data) - 4:
            return dict(reproduced=False)                      # the listed finding
        try:
            w = bytes(v.compose())
        except Exception as ex:
            return dict(reproduced=True, call='%s.parse_immutable(bytes.fromhex(%r))[0].compose()' % (vcls.__name__, bytes(data).hex()),
                        expected=bytes(data[:n]).hex(), observed=repr(ex)[:100], key='name not preserved')
        if w != bytes(data[:n]):
            return dict(reproduced=True, call='%s.parse_immutable(bytes.fromhex(%r))[0].compose()' % (vcls.__name__, bytes(data).hex()),
                        expected=bytes(data[:n]).hex(), observed=w.hex(), key='name not preserved')
        return dict(reproduced=False)

    def search(seed, hints=()):
        import struct
        members = list(vcls.get_param().item_class)[:3] if hasattr(vcls.get_param(), 'item_class') else []
        known = [m.value.code for m in members if isinstance(getattr(m.value, 'code', None), str)]
        names = known + ['unknown@example.com', 'x']
        cands = []
        for a in names:
            for variant in (a, ' ' + a, a + ' ', a.upper(), a + '\t'):
                cands.append(variant)
                cands.append(variant + ',' + names[0])
                cands.append(names[-1] + ', ' + variant)
        for c in cands:
            body = c.encode('ascii')
            w = native(struct.pack('!I', len(body)) + body)
            if w.get('reproduced'):
                return w
        return dict(reproduced=False)

    def replay(inputs):
        from checks import e1 as _e1
        data = _e1.bytes_of(inputs)
        w = native(data) if data is not None else dict(reproduced=False)
        return w if w.get('reproduced') else search(0)

    def run():
        from checks import e1 as _e1
        _e1.setup()
        r = vc.run_unit(vcls.__name__, thunk, max_paths=3000)
        r.extra['bounded'] = sorted(set(r.extra.get('bounded', [])) | {'text-layer scanning loops explored up to the loop bound of the E1 exploration (names of a few octets)'})
        return r
    return Unit('names/%s' % vcls.__name__, run, replay=replay, search=search, clause='C10 SSH names',
                functions=['VectorString._parse[%s]' % vcls.__name__, 'VectorString.compose'])


def _units_body(tier, seed):
    out = []
    from cryptoparser.ssh import subprotocol as _SP
    for vc_ in (_SP.SshKexAlgorithmVector, _SP.SshEncryptionAlgorithmVector):
        out.append(name_list_unit(vc_))
    from cryptoparser.common import base as _RB
    from checks import census as _census
    for c in _census.concrete_parsables():
        if issubclass(c, _RB.OpaqueEnumParsable):
            out.append(opaque_name_unit(c))
    for fac in factories():
        out.append(Unit('refine/%s' % fac.__name__, refine_unit(fac), clause='C10 decode contract',
                        functions=['NByteEnumParsable._parse[%s]' % fac.__name__]))
        out.append(Unit('decode/%s' % fac.__name__, decode_unit(fac), clause='C10 decode',
                        functions=['%s._parse' % fac.__name__, 'NByteEnumComposer.compose']))
    for vcls, param, sp in coded_vectors():
        out.append(Unit('vector/%s' % vcls.__name__, vector_unit(vcls, param, sp), clause='C10 preserved in lists',
                        functions=['%s._parse' % vcls.__name__, '%s.compose' % vcls.__name__]))
    for e in coded_enums() + int_enums():
        out.append(Unit('table/%s' % e.__name__, table_unit(e, e.__name__), replay=table_replay(e), search=lambda seed, e=e: table_replay(e)({}),
                        clause='C10 tables', backend='native-ground'))
    from checks import foundation
    from checks import hello
    out.append(hello.unit(('K3',), 'C10 codes preserved inside a ClientHello'))
    return out + foundation.units(tier, seed, include_enum=False)



def units(tier, seed):
    from checks import canary
    return list(_units_body(tier, seed)) + [canary.decode_first_member()]


FINDING_REPLAYS = {'KF-C10-name-list-declared-length': w_name_list_declared}
