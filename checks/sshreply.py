# SSH_MSG_KEXDH_REPLY (RFC 4253 8) and SSH_MSG_KEX_DH_GEX_REPLY (RFC 4419 3): byte code, string K_S (server public host key
# and certificates), mpint f, string signature of H. The library carries f as the octets of the mpint (a string, as for e in
# the INIT messages). The host key enters by its class contract (an abstract object: compose() gives some byte string;
# parsing exactly those bytes with the class the message uses gives the object back - clauses K3 + K8 of the key classes),
# the other two fields are arbitrary byte strings. Stated on the real compose() and _parse():
#   K6   compose(o) == code, string(K_S), string(f), string(signature)           (message numbers: spec/ssh.py MSG)
#   K3   parsing those bytes is accepted, consumes all of them and gives the three fields back
import z3

from pyvc import values as V, engine as E, interp as I, ops, vc
from pyvc.runner import Unit
from pyvc.values import SObj
from checks import common, e1

CODES = dict(SshDHKeyExchangeReply='KEXDH_REPLY', SshDHGroupExchangeReply='KEX_DH_GEX_REPLY')


def thunk_for(cls):
    def thunk():
        from cryptoparser.ssh.key import SshHostPublicKeyVariant
        from contracts import nested
        from spec.wire import cat, u8
        from spec.ssh import string, MSG
        P = E.cur()
        P.top_class = cls
        P.nested_memo = []
        blob, facts = V.base_seq('host_key_blob', 'bytearray')
        for f in facts:
            P.assume(f)
        # typed as one concrete key class (the common base of the variant's classes declares no compose()); nothing but its
        # class contract - compose() gives `blob`, parsing `blob` gives it back - is ever used of it
        from cryptoparser.ssh.key import SshHostKeyEDDSA
        key = SObj(SshHostKeyEDDSA)
        key.abstract, key.abstract_of, key.abstract_id = True, SshHostPublicKeyVariant, V.fresh_int('obj')
        key.f['_abs_compose'] = blob
        P.__dict__.setdefault('abs_composed', []).append((SshHostPublicKeyVariant, key, blob))
        f_, facts = V.base_seq('ephemeral_public_key', 'bytes')
        for x in facts:
            P.assume(x)
        sig, facts = V.base_seq('signature', 'bytes')
        for x in facts:
            P.assume(x)
        P.inputs.update(host_key_blob=blob, ephemeral_public_key=f_, signature=sig)
        o = SObj(cls, dict(host_public_key=key, ephemeral_public_key=f_, signature=sig))
        out = vc.outcome_of(lambda: I.call(I.getattr_(o, 'compose'), [], {}))
        if out.kind != 'ret':
            e1.record_path_fact(P, 'K6 %s: compose refuses only with the library errors (raised %s)' % (cls.__name__, out.value.cls.__name__),
                                issubclass(out.value.cls, e1.FOUR))
            return
        wire = ops.as_seq(out.value).copy('bytes')
        want = cat(u8(MSG[CODES[cls.__name__]]), string(blob), string(f_), string(sig))
        vc.oblige_equal(P, 'K6 %s: message number, string K_S, string f, string signature (RFC 4253 8 / RFC 4419 3)' % cls.__name__, wire, want)
        res = vc.outcome_of(lambda: I.call(cls.parse_immutable, [want.copy('bytes')], {}))
        e1.record_path_fact(P, 'K3 %s: the specified bytes are accepted%s' % (cls.__name__, '' if res.kind == 'ret' else ' (raised %s)' % res.value.cls.__name__),
                            res.kind == 'ret')
        if res.kind != 'ret':
            return
        o2, n = res.value
        P.oblige('K3 %s: all bytes are consumed' % cls.__name__, ops.as_int(n) == want.n)
        vc.oblige_equal(P, 'K3 %s: the host key is read back' % cls.__name__, I.getattr_(o2, 'host_public_key'), key)
        vc.oblige_equal(P, 'K3 %s: f is read back' % cls.__name__, I.getattr_(o2, 'ephemeral_public_key'), f_)
        vc.oblige_equal(P, 'K3 %s: the signature is read back' % cls.__name__, I.getattr_(o2, 'signature'), sig)
    return thunk


def native_for(cls):
    def native(seed=0, hints=()):
        import struct
        from cryptoparser.common.parse import ComposerBinary
        from cryptoparser.ssh.key import SshHostPublicKeyVariant
        from spec.ssh import MSG
        st = lambda b: struct.pack('!I', len(b)) + bytes(b)
        ed = ComposerBinary()
        ed.compose_string('ssh-ed25519', 'ascii', 4)
        ed.compose_bytes(bytes(range(32)), 4)
        key = SshHostPublicKeyVariant.parse_exact_size(ed.composed_bytes)
        for f_, sig in ((b'', b''), (b'\x00\x80', b'\x01'), (b'\x7f' * 256, b'\x00' * 83), (b'\x00', b'sig' * 100)):
            o = cls(key, f_, sig)
            want = bytes([MSG[CODES[cls.__name__]]]) + st(key.compose()) + st(f_) + st(sig)
            call = '%s(<ssh-ed25519 key>, %r.., %r..)' % (cls.__name__, f_[:4], sig[:4])
            try:
                got = bytes(o.compose())
            except Exception as ex:
                return dict(reproduced=True, call=call + '.compose()', expected='composed', observed=repr(ex)[:160], key='dh reply')
            if got != want:
                return dict(reproduced=True, call=call + '.compose()', expected=want.hex()[:160], observed=got.hex()[:160], key='dh reply')
            try:
                o2, n = cls.parse_immutable(want)
            except Exception as ex:
                return dict(reproduced=True, call='%s.parse_immutable(%s..)' % (cls.__name__, want.hex()[:40]), expected='accepted', observed=repr(ex)[:160], key='dh reply')
            if n != len(want) or o2 != o:
                return dict(reproduced=True, call='%s.parse_immutable(%s..)' % (cls.__name__, want.hex()[:40]), expected='the same message, %d consumed' % len(want),
                            observed='%r, %d' % (o2 == o, n), key='dh reply')
        return dict(reproduced=False)
    return native


def units():
    from cryptoparser.ssh import subprotocol as SP
    out = []
    for cls in (SP.SshDHKeyExchangeReply, SP.SshDHGroupExchangeReply):
        def run(cls=cls):
            from contracts import nested
            e1.setup()
            nested.ABSTRACT_DISABLED = False
            nested.K3_CLAUSE = True
            return vc.run_unit('sshreply-' + cls.__name__, thunk_for(cls), max_paths=400)
        s = native_for(cls)
        out.append(Unit('K6+K3/%s (host key by its class contract)' % common.class_key(cls), run, replay=lambda inputs, s=s: s(0), search=s,
                        clause='K6+K3', functions=['SshDHKeyExchangeReplyBase.compose', 'SshDHKeyExchangeReplyBase._parse', 'spec RFC 4253 8 / RFC 4419 3']))
    return out
