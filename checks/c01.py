# C01 -- compose then parse returns the same message and consumes every byte (clause K3 over E2)
from pyvc.runner import Unit
from checks import common, e1, e2, rebuild

TRUSTED_BASE = common.TRUSTED_BASE
ASSUMPTIONS = common.ASSUMPTIONS + [
    'text fields of binary classes range over ASCII strings; datetime fields over whole-second instants (DESIGN.md 3.3)',
    'a fallback item (TlsInvalidType*) inside a coded vector carries a code that is not assigned in the table (DESIGN.md 3.3)',
]
UNCOVERED = []
BOUNDED = ['vectors/lists of variable-size items: objects with at most 1 item are explored (coded and numeric vectors: any length)']


def unit_for(cls):
    def native(o):
        call = '%s.parse_exact_size(%r.compose())' % (cls.__name__, o)
        try:
            wire = o.compose()
        except Exception:
            return dict(reproduced=False)
        try:
            o2, n = cls.parse_immutable(bytes(wire))
        except Exception as ex:
            return dict(reproduced=True, call=call[:400], expected='parsed object equal to the original', observed=repr(ex)[:200],
                        key='composed bytes rejected')
        if n != len(wire) or o2 != o:
            return dict(reproduced=True, call=call[:400], expected='n == %d and equal object' % len(wire),
                        observed='n=%d, equal=%s, parsed=%r' % (n, o2 == o, o2), key='round trip differs')
        return dict(reproduced=False)

    def replay(inputs):
        try:
            o = rebuild.value(inputs.get('object'))
        except Exception as ex:
            return dict(reproduced=False, error=repr(ex))
        return native(o)
    return Unit('K3/%s' % common.class_key(cls), e2.clause_unit(cls, ('K3', 'compose re')), replay=replay, clause='K3',
                functions=['%s.compose' % cls.__name__, '%s._parse' % cls.__name__])


def _units_body(tier, seed):
    classes = [c for c in common.select_classes(e1.binary_classes(), tier, 'C01')
               if c.__name__ not in _regions.whole_class_regions()]
    UNCOVERED[:] = common.uncovered_report(e1.binary_classes(), classes)
    from checks import hello
    extra_hello = [hello.unit(('K3',), 'K3 round trip')]
    from checks import foundation
    # objects a caller builds by editing a vector in place: the C12 units show that after every accepted edit the object
    # state (items and tracked body size) is the state the constructor gives for the same items, so K3 above applies to it
    from checks import c12
    edited = []
    for vcls, param, w in [v for v in c12.fixed_vectors() if v[0].__name__ in ('CtExtensions', 'TlsECPointFormatVector')]:
        for op in c12.OPS:
            replay, search = c12.replay_for(vcls, op)
            edited.append(Unit('edited-object/%s/%s' % (vcls.__name__, op), c12.op_unit(vcls, param, w, op), replay=replay,
                               search=search, clause='K3 on edited objects', functions=['ArrayBase.%s' % op, 'ArrayBase._update_items_size']))
    return list([unit_for(c) for c in classes]) + extra_hello + edited + foundation.units(tier, seed)


from checks import regions as _regions

def units(tier, seed):
    from checks import canary
    return list(_units_body(tier, seed)) + [canary.e2_layout(), canary.e1_accepts()]


FINDING_REPLAYS = _regions.finding_replays('C01')
