# C13 -- observers are pure and objects never share state with inputs or each other
#   K9        compose() leaves the object equal to a snapshot taken before, on success AND on failure   (E2, all classes)
#   K9/hello  the same for TlsHandshakeClientHello.compose with a symbolic cipher-suite vector (its own unit: the
#             SCSV handling appends to and deletes from self.cipher_suites)
#   obs/*     ja3(), key_tag leave the object unchanged
#   alias/*   a parsed object holds no reference to the caller's (mutable) buffer: parse a symbolic bytearray and walk
#             the object graph of the result for the identity of the input                      (E1, all classes)
#   defaults  ground obligations on the attrs declarations: a mutable default value must be produced per instance
#             (converter or factory), not shared by all instances                                  (decided natively)
import enum

import attr
import z3

from pyvc import values as V, engine as E, interp as I, ops, vc, gen
from pyvc.runner import Unit
from pyvc.values import SSeq, SObj
from checks import common, e1, e2, census, regions, rebuild

TRUSTED_BASE = common.TRUSTED_BASE
ASSUMPTIONS = common.ASSUMPTIONS + [
    'object identity of mutable values is the identity of the interpreter objects that stand for them (aliasing is observed, not modelled)',
]
UNCOVERED = []
BOUNDED = ['vectors of variable-size items: at most 1 item']


def k9_unit(cls):
    def native(o):
        import copy
        try:
            before = copy.deepcopy(o)
        except Exception:
            return dict(reproduced=False)
        call = '%r.compose()' % (o,)
        try:
            o.compose()
            outcome = 'returned'
        except Exception as ex:
            outcome = 'raised %s' % type(ex).__name__
        if o != before:
            return dict(reproduced=True, call=call[:400], expected='object unchanged (compose %s)' % outcome, observed=repr(o)[:300],
                        key='compose mutates')
        return dict(reproduced=False)

    def replay(inputs):
        try:
            o = rebuild.value(inputs.get('object'))
        except Exception as ex:
            return dict(reproduced=False, error=repr(ex))
        return native(o)
    return Unit('K9/%s' % common.class_key(cls), e2.clause_unit(cls, ('K9',)), replay=replay, clause='K9',
                functions=['%s.compose' % cls.__name__])


def hello_compose_unit():
    from cryptoparser.tls.subprotocol import TlsHandshakeClientHello, TlsCipherSuiteVector

    def thunk():
        P = E.cur()
        suites = gen.make_vector_items(P, TlsCipherSuiteVector, 'suites', 0)
        fb, er = V.SBool(z3.Bool('fallback_scsv')), V.SBool(z3.Bool('empty_renegotiation_info_scsv'))
        P.inputs.update(cipher_suites=suites, fallback_scsv=fb, empty_renegotiation_info_scsv=er)
        obj = I.construct(TlsHandshakeClientHello, [], dict(cipher_suites=suites, fallback_scsv=fb, empty_renegotiation_info_scsv=er))
        snapshot = vc.clone(obj)
        out = vc.outcome_of(lambda: I.call(I.getattr_(obj, 'compose'), [], {}))
        vc.oblige_equal(P, 'K9 TlsHandshakeClientHello.compose() leaves the object unchanged (%s)' % out.describe(), obj, snapshot)
        if out.kind == 'raise':
            e1.record_path_fact(P, 'compose refuses only with the library errors (got %s)' % out.value.cls.__name__,
                                issubclass(out.value.cls, e1.FOUR))

    def run():
        e2.setup()
        return vc.run_unit('hello', thunk)

    def search(seed, hints=()):
        from cryptodatahub.tls.algorithm import TlsCipherSuite
        import copy
        m = list(TlsCipherSuite)[5]
        for n in (32767, 32766, 1):
            for fb in (True, False):
                for er in (True, False):
                    o = TlsHandshakeClientHello([m] * n, fallback_scsv=fb, empty_renegotiation_info_scsv=er)
                    before = len(o.cipher_suites)
                    try:
                        o.compose()
                    except Exception:
                        pass
                    if len(o.cipher_suites) != before:
                        return dict(reproduced=True, key='compose mutates',
                                    call='TlsHandshakeClientHello([suite] * %d, fallback_scsv=%s, empty_renegotiation_info_scsv=%s).compose()' % (n, fb, er),
                                    expected='%d cipher suites afterwards' % before, observed='%d cipher suites' % len(o.cipher_suites))
        return dict(reproduced=False)
    return Unit('K9/TlsHandshakeClientHello.compose[symbolic cipher suites]', run, search=search, replay=lambda inputs: search(0),
                clause='K9', functions=['TlsHandshakeClientHello.compose'])


# ------------------------------------------------------------------------------------------------- aliasing
def native_mutables(o, seen=None, out=None):
    """ids of the mutable objects reachable from a native result: lists, dicts, sets, bytearrays and non-frozen attrs
    instances of repository classes (enum members and values of other packages are not followed)"""
    import enum as _enum
    seen = seen if seen is not None else set()
    out = out if out is not None else set()
    if id(o) in seen or isinstance(o, (_enum.Enum, type)):
        return out
    seen.add(id(o))
    if isinstance(o, (list, dict, set, bytearray)):
        out.add(id(o))
        for x in (o.values() if isinstance(o, dict) else o if not isinstance(o, bytearray) else ()):
            native_mutables(x, seen, out)
    elif isinstance(o, tuple):
        for x in o:
            native_mutables(x, seen, out)
    elif attr.has(type(o)) and type(o).__module__.startswith('cryptoparser'):
        frozen = getattr(type(o), '__setattr__', object.__setattr__) is not object.__setattr__
        if not frozen:
            out.add(id(o))
        for a in attr.fields(type(o)):
            native_mutables(getattr(o, a.name, None), seen, out)
    return out


def reachable_mutables(v, seen=None, out=None):
    seen = seen if seen is not None else set()
    out = out if out is not None else []
    if id(v) in seen:
        return out
    seen.add(id(v))
    if isinstance(v, SSeq):
        if v.kind in ('bytearray', 'list'):
            out.append(v)
    elif isinstance(v, SObj):
        for x in v.f.values():
            reachable_mutables(x, seen, out)
    elif isinstance(v, (list, tuple)):
        for x in v:
            reachable_mutables(x, seen, out)
    elif isinstance(v, dict):
        for x in v.values():
            reachable_mutables(x, seen, out)
    return out


_SHARED_OBJECTS = None


def shared_object_ids():
    """ids of the mutable objects that live at module level or in class attributes of the repository (instances of its
    non-frozen attrs classes, lists, dicts, sets, bytearrays, and everything mutable reachable from them) -> where they live"""
    global _SHARED_OBJECTS
    if _SHARED_OBJECTS is None:
        import sys
        import enum as _enum
        out = {}

        def walk(o, where, depth=0):
            if depth > 4 or isinstance(o, (_enum.Enum, type, str, bytes, int, float, type(None))) or id(o) in out:
                return
            if isinstance(o, (list, dict, set, bytearray)):
                out[id(o)] = where
                for x in (o.values() if isinstance(o, dict) else o if not isinstance(o, bytearray) else ()):
                    walk(x, where, depth + 1)
            elif isinstance(o, tuple):
                for x in o:
                    walk(x, where, depth + 1)
            elif attr.has(type(o)) and type(o).__module__.startswith('cryptoparser'):
                if getattr(type(o), '__setattr__', object.__setattr__) is object.__setattr__:
                    out[id(o)] = where
                for a in attr.fields(type(o)):
                    walk(getattr(o, a.name, None), where, depth + 1)
        listed = known_shared()
        for mname, mod in list(sys.modules.items()):
            if not mname.startswith('cryptoparser') or mod is None:
                continue
            for gname, g in list(vars(mod).items()):
                if isinstance(g, type) and getattr(g, '__module__', '') == mname:
                    for aname, a in list(vars(g).items()):
                        walk(a, '%s.%s.%s' % (mname, g.__name__, aname))
                    if attr.has(g):
                        short = mname.split('.', 1)[1] + '.' + g.__name__
                        for f in attr.fields(g):
                            if f.default is not attr.NOTHING and not isinstance(f.default, attr.Factory) \
                                    and '%s.%s' % (short, f.name) not in listed and not any(
                                        '%s.%s' % (k.__module__.split('.', 1)[1] + '.' + k.__name__, f.name) in listed for k in g.__mro__
                                        if k.__module__.startswith('cryptoparser.')):
                                walk(f.default, 'default of %s.%s' % (short, f.name))
                elif not isinstance(g, type):
                    walk(g, '%s.%s' % (mname, gname))
        _SHARED_OBJECTS = out
    return _SHARED_OBJECTS


def native_reachable(v, seen=None, out=None):
    """native (concrete) mutable objects reachable from a symbolic result"""
    seen = seen if seen is not None else set()
    out = out if out is not None else []
    if id(v) in seen:
        return out
    seen.add(id(v))
    if isinstance(v, SObj):
        for x in v.f.values():
            native_reachable(x, seen, out)
    elif isinstance(v, (list, tuple)):
        if isinstance(v, list):
            out.append(v)
        for x in v:
            native_reachable(x, seen, out)
    elif isinstance(v, dict):
        out.append(v)
        for x in v.values():
            native_reachable(x, seen, out)
    elif isinstance(v, (bytearray, set)):
        out.append(v)
    elif attr.has(type(v)) and type(v).__module__.startswith('cryptoparser') and not isinstance(v, __import__('enum').Enum):
        out.append(v)
        for a in attr.fields(type(v)):
            native_reachable(getattr(v, a.name, None), seen, out)
    return out


def alias_unit(cls):
    def thunk():
        P = E.cur()
        buf, facts = V.base_seq('buf', 'bytearray')
        for f in facts:
            P.assume(f)
        P.inputs['buf'] = buf
        P.buf = buf
        P.top_class = cls
        return I.call(cls.parse_immutable, [buf], {})

    def on_path(r):
        P = r.path
        if r.kind != 'ret':
            return
        obj = r.value[0] if isinstance(r.value, tuple) else r.value
        shared = any(m is P.buf for m in reachable_mutables(obj))
        e1.record_path_fact(P, 'alias %s: the parsed object does not reference the caller\'s buffer' % cls.__name__, not shared)
        ids = shared_object_ids()
        hits = sorted({ids[id(m)] for m in native_reachable(obj) if id(m) in ids})
        e1.record_path_fact(P, 'alias %s: the parsed object holds no mutable object that lives at module or class level%s'
                            % (cls.__name__, '' if not hits else ' (' + ', '.join(hits[:3]) + ')'), not hits)

    def run():
        e1.setup()
        # frame condition of a parse: nothing that outlives the call (class attributes, module globals) is written
        I.SHARED_WRITE_HOOK = lambda desc: e1.record_path_fact(
            E.cur(), 'frame %s: the parser writes no state shared between calls (%s)' % (cls.__name__, desc), False)
        res = vc.run_unit(cls.__name__, thunk, on_result=on_path, max_paths=4000)
        if not res.obligations and not res.unsupported and not res.error:
            res.obligations.append(dict(name='alias %s: no accepting path' % cls.__name__, kind='post', status='proved', detail=None,
                                        where=None, seconds=0))
        return res

    def native(data):
        buf = bytearray(data)
        try:
            obj, n = cls.parse_immutable(buf)
        except Exception:
            return dict(reproduced=False)
        import copy
        try:
            before = copy.deepcopy(obj)
        except Exception:
            return dict(reproduced=False)
        for i in range(len(buf)):
            buf[i] ^= 0xff
        del buf[:]
        try:
            same = obj == before
        except Exception:
            same = True
        if not same:
            return dict(reproduced=True, call='o, n = %s.parse_immutable(buf := bytearray.fromhex(%r)); buf is overwritten and emptied' % (cls.__name__, bytes(data).hex()),
                        expected='o unchanged', observed=repr(obj)[:200], key='aliases input')
        # two parses of the same bytes give two objects that share no mutable part
        try:
            o1, _ = cls.parse_immutable(bytes(data))
            o2, _ = cls.parse_immutable(bytes(data))
        except Exception:
            return dict(reproduced=False)
        shared = native_mutables(o1) & native_mutables(o2)
        if shared:
            return dict(reproduced=True, call='%s.parse_immutable(bytes.fromhex(%r)) twice' % (cls.__name__, bytes(data).hex()),
                        expected='two objects without a shared mutable part', observed='%d mutable object(s) reachable from both results' % len(shared),
                        key='shared between parses')
        return dict(reproduced=False)

    def replay(inputs):
        data = e1.bytes_of(inputs)
        return native(data) if data is not None else dict(reproduced=False)

    def search(seed, hints=()):
        for data in list(hints) + [b'', b'\x00', b'abc', bytes(range(16))] + common.samples(cls):
            w = native(data)
            if w.get('reproduced'):
                return w
        return dict(reproduced=False)
    return Unit('alias/%s' % common.class_key(cls), run, replay=replay, search=search, clause='no aliasing of the input',
                functions=['%s._parse' % cls.__name__])


# ------------------------------------------------------------------------------------------------- defaults
MUTABLE_BUILTINS = (list, dict, set, bytearray)


def ctor_fresh_unit(vcls, param, w, source):
    """the vector constructor (what attrs converters and defaults go through) builds a NEW item list: the result holds the
    argument's items but shares no mutable state with it -- for an argument that is a vector of the same class or a list"""
    from checks import c12

    def thunk():
        P = E.cur()
        v, items0 = c12.sym_vector(P, vcls, param, w)
        arg = v if source == 'vector' else v.f['_items']
        out = I.construct(vcls, [arg], {})
        mine = reachable_mutables(out)
        theirs = reachable_mutables(arg)
        e1.record_path_fact(P, 'fresh %s(%s): the new vector shares no mutable object with its argument' % (vcls.__name__, source),
                            not any(a is b for a in mine for b in theirs))
        vc.oblige_equal(P, 'fresh %s(%s): the new vector holds the items of its argument' % (vcls.__name__, source),
                        ops.as_seq(out.f['_items']).copy('list'), items0.copy('list'))

    def native(seed=0):
        import random
        rnd = random.Random(seed)
        for _ in range(50):
            try:
                n = rnd.randrange(0, 5)
                a = vcls(_native_items(vcls, param, n, rnd))
            except Exception:
                continue
            arg = a if source == 'vector' else list(a)
            before = list(a)
            b = vcls(arg)
            try:
                if len(b):
                    del b[0]
                else:
                    continue
            except Exception:
                continue
            if list(a) != before or (source == 'list' and arg != before):
                return dict(reproduced=True, call='a = %r; b = %s(a%s); del b[0]' % (a, vcls.__name__, '' if source == 'vector' else ' as list'),
                            expected='a unchanged: %r' % (before,), observed='a == %r' % (list(a),), key='shared item list')
        return dict(reproduced=False)
    return Unit('fresh/%s(%s)' % (vcls.__name__, source), lambda: (e1.setup(), vc.run_unit('fresh', thunk))[1],
                replay=lambda inputs: native(), search=lambda seed, hints=(): native(seed), clause='no shared state',
                functions=['ArrayBase.__attrs_post_init__'])


def _native_items(vcls, param, n, rnd):
    import enum as _enum
    ic = getattr(param, 'item_class', None)
    if isinstance(ic, type) and issubclass(ic, _enum.Enum):
        ms = list(ic)
        return [rnd.choice(ms) for _ in range(n)]
    if getattr(param, 'item_classes', None):
        for c in param.item_classes:
            if hasattr(c, 'get_enum_class'):
                ms = list(c.get_enum_class())
                return [rnd.choice(ms) for _ in range(n)]
    return [rnd.randrange(0, 256) for _ in range(n)]


def is_mutable_value(v):
    from cryptoparser.common.base import ArrayBase
    if isinstance(v, MUTABLE_BUILTINS):
        return True
    if isinstance(v, ArrayBase):
        return True
    if attr.has(type(v)) and not isinstance(v, enum.Enum):
        try:
            hash(v)
            frozen = getattr(type(v), '__setattr__', None) is not object.__setattr__ and 'Frozen' in repr(type(v).__setattr__)
        except TypeError:
            frozen = False
        return not frozen
    return False


def defaults_unit():
    def classes():
        out = []
        for c in census.subclasses(object) if False else []:
            pass
        seen = set()
        for m in census.all_modules():
            for k, v in vars(m).items():
                if isinstance(v, type) and attr.has(v) and v.__module__.startswith('cryptoparser.') and v not in seen:
                    seen.add(v)
                    out.append(v)
        out.sort(key=lambda c: (c.__module__, c.__name__))
        return out

    def shared_defaults():
        bad = []
        for c in classes():
            for a in attr.fields(c):
                d = a.default
                if d is attr.NOTHING or isinstance(d, attr.Factory):
                    continue
                if a.converter is not None:
                    from cryptoparser.common.base import ArrayBase
                    if isinstance(a.converter, type) and issubclass(a.converter, ArrayBase):
                        continue            # the converter builds a fresh vector from the default items for every instance
                if is_mutable_value(d):
                    if any(a.name in k.__dict__.get('__attrs_attrs__', ()) and False for k in ()):
                        pass
                    owner = [k for k in type.mro(c) if any(x.name == a.name for x in getattr(k, '__attrs_attrs__', ()) or ())][-1]
                    bad.append((owner.__module__.split('.', 1)[1] + '.' + owner.__name__, a.name, type(d).__name__))
        return sorted(set(bad))

    def run():
        res = vc.UnitResult('defaults')
        bad = shared_defaults()
        listed = known_shared()
        res.paths = 1
        n = 0
        for c in classes():
            n += 1
        res.obligations.append(dict(name='attrs declarations scanned: %d classes' % n, kind='ground', status='proved', detail=None, where=None, seconds=0))
        new = [b for b in bad if '%s.%s' % (b[0], b[1]) not in listed]
        res.obligations.append(dict(name='no attrs field has a mutable default object shared by all instances (beyond the listed known findings)',
                                    kind='ground', status='proved' if not new else 'failed',
                                    detail=dict(inputs=dict(shared=['%s.%s (%s)' % b for b in new])) if new else None, where=None, seconds=0))
        res.extra['shared_defaults'] = ['%s.%s (%s)' % b for b in bad]
        return res

    def replay(inputs):
        bad = [b for b in shared_defaults() if '%s.%s' % (b[0], b[1]) not in known_shared()]
        if bad:
            return dict(reproduced=True, key='shared default', call='attr.fields(%s).%s.default' % (bad[0][0], bad[0][1]),
                        expected='a per-instance value (converter or attr.Factory)', observed='one shared %s object; all: %s' % (bad[0][2], bad[:8]))
        return dict(reproduced=False)
    return Unit('defaults/attrs-declarations', run, replay=replay, search=lambda seed, hints=(): replay({}), clause='defaults', backend='native-ground')


def known_shared():
    import json
    import os
    p = os.path.join(common.HERE, 'known_findings.json')
    out = set()
    for f in json.load(open(p)).get('findings', []):
        if f['property'] == 'C13' and f.get('shared_default'):
            out.update(f['shared_default'])
    return out


def w_shared_defaults():
    """known finding: mutable default objects shared by all instances"""
    from cryptoparser.tls.extension import TlsExtensionSessionTicket
    a, b = TlsExtensionSessionTicket(), TlsExtensionSessionTicket()
    try:
        shared = a.session_ticket is b.session_ticket and isinstance(a.session_ticket, (bytearray, list))
    except Exception:
        shared = False
    return dict(reproduced=bool(shared), observed='TlsExtensionSessionTicket().session_ticket is shared' if shared else 'not shared')


def _units_body(tier, seed):
    classes = [c for c in common.select_classes(e1.binary_classes(), tier, 'C01')
               if c.__name__ not in regions.whole_class_regions()]
    out = [k9_unit(c) for c in classes]
    from checks import hello
    out.append(hello.unit(('K9',), 'K9 compose purity'))
    out.append(hello_compose_unit())
    for c in common.select_classes(e1.binary_classes(), tier, 'C13'):
        out.append(alias_unit(c))
    out.append(defaults_unit())
    from checks import c12
    for vcls, param, w in c12.fixed_vectors():
        if vcls.__name__ in ('TlsHandshakeHelloRandomBytes',):
            continue
        for source in ('vector', 'list'):
            out.append(ctor_fresh_unit(vcls, param, w, source))
    from checks import c13_obs
    out.extend(c13_obs.units(tier, seed))
    # fingerprinting observers: pure as well (the units that decide their value also state that they write nothing)
    from checks import c08, c15
    out.append(c08.keytag_full_unit('observer/DnsRecordDnskey.key_tag (value and purity)'))
    gk, sk = c15.listed(c15.KF_GREASE), c15.listed(c15.KF_SCSV)
    # one template per kind of list ja3() walks: extension types, supported groups, point formats (a helper that filters GREASE
    # values out of the message's own vectors leaves the string right and the hello changed)
    for t in ('unparsed', 'groups', 'formats'):
        out.append(Unit('observer/TlsHandshakeClientHello.ja3 (value and purity) [%s]' % t, c15.ja3_unit(t, gk, sk), replay=c15.replay_for(t, gk, sk),
                        search=c15.search_for(t, gk, sk), clause='observer purity', functions=['TlsHandshakeClientHello.ja3']))
    UNCOVERED[:] = common.uncovered_report(e1.binary_classes(), classes) + \
        ['as_json/as_markdown (C14 territory) and hassh/fingerprints observers are not under contract here']
    from checks import foundation
    return list(out) + foundation.units(tier, seed)


FINDING_REPLAYS = dict(regions.finding_replays('C13'))

def units(tier, seed):
    from checks import canary
    return list(_units_body(tier, seed)) + [canary.e1_accepts()]


FINDING_REPLAYS['KF-C13-shared-defaults'] = w_shared_defaults
