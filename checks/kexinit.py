# SshKeyExchangeInit under nested class contracts: its ten name-lists are used through the clauses of their own classes
# (K1/K2 when parsed from arbitrary bytes; K3 + K8 when the bytes are what such a list composed to), so the message-level
# statements can be made although the text-layer list parser is outside the explorations:
#   K5   parse(b) = o1, compose(o1) = b2, parse(b2) = o2: b2 exists, is consumed entirely, o2 == o1     (C05)
#   K6   compose(o) == byte 20, cookie[16], ten name-lists in RFC 4253 7.1 order, boolean, uint32 0       (C07)
import z3

from pyvc import values as V, engine as E, interp as I, ops, vc
from pyvc.runner import Unit
from checks import common, e1

FIELDS = ('kex_algorithms', 'host_key_algorithms', 'encryption_algorithms_client_to_server', 'encryption_algorithms_server_to_client',
          'mac_algorithms_client_to_server', 'mac_algorithms_server_to_client', 'compression_algorithms_client_to_server',
          'compression_algorithms_server_to_client', 'languages_client_to_server', 'languages_server_to_client')


def _setup():
    from contracts import nested
    e1.setup()
    nested.K3_CLAUSE = True


def k5_thunk():
    from cryptoparser.ssh.subprotocol import SshKeyExchangeInit as C
    P = E.cur()
    buf, facts = V.base_seq('buf')
    for f in facts:
        P.assume(f)
    P.inputs['buf'] = buf
    P.buf = buf
    P.top_class = C
    P.nested_memo = []
    o1, n1 = I.call(C.parse_immutable, [buf], {})                       # rejecting paths end here
    out = vc.outcome_of(lambda: I.call(I.getattr_(o1, 'compose'), [], {}))
    e1.record_path_fact(P, 'K5 SshKeyExchangeInit: compose() accepts the object the parser returned%s' % (
        '' if out.kind == 'ret' else ' (raised %s)' % out.value.cls.__name__), out.kind == 'ret')
    if out.kind != 'ret':
        return
    b2 = ops.as_seq(out.value).copy('bytes')
    res = vc.outcome_of(lambda: I.call(C.parse_immutable, [b2], {}))
    if res.kind != 'ret':
        e1.record_path_fact(P, 'K5 SshKeyExchangeInit: the re-serialised bytes are accepted again (raised %s)' % res.value.cls.__name__, False)
        return
    o2, n2 = res.value
    P.oblige('K5 SshKeyExchangeInit: the re-serialised bytes are consumed entirely', ops.as_int(n2) == b2.n)
    vc.oblige_equal(P, 'K5 SshKeyExchangeInit: the re-parsed message equals the first one', o2, o1)


def k5_native(data):
    from cryptoparser.ssh.subprotocol import SshKeyExchangeInit as C
    try:
        o1, n = C.parse_immutable(data)
    except Exception:
        return dict(reproduced=False)
    call = 'SshKeyExchangeInit.parse_immutable(bytes.fromhex(%r))' % bytes(data).hex()
    try:
        b2 = bytes(o1.compose())
        o2, n2 = C.parse_immutable(b2)
    except Exception as ex:
        return dict(reproduced=True, call=call + ' -> compose -> parse', expected='accepted', observed=repr(ex)[:160], key='re-serialise')
    if o2 != o1 or n2 != len(b2) or bytes(o2.compose()) != b2:
        diff = [a.name for a in __import__('attr').fields(C) if getattr(o1, a.name) != getattr(o2, a.name)]
        return dict(reproduced=True, call=call + ' -> compose -> parse', expected='an equal message', observed='fields that differ: %s' % diff, key='re-serialise')
    return dict(reproduced=False)


def sample_bytes():
    from cryptoparser.ssh.subprotocol import SshKeyExchangeInit as C
    from cryptodatahub.ssh.algorithm import SshKexAlgorithm, SshHostKeyAlgorithm, SshEncryptionAlgorithm, SshMacAlgorithm, SshCompressionAlgorithm
    o = C(kex_algorithms=[list(SshKexAlgorithm)[0], 'unknown-kex@example.com'], host_key_algorithms=[list(SshHostKeyAlgorithm)[0]],
          encryption_algorithms_client_to_server=[list(SshEncryptionAlgorithm)[0]], encryption_algorithms_server_to_client=[list(SshEncryptionAlgorithm)[1]],
          mac_algorithms_client_to_server=[list(SshMacAlgorithm)[0]], mac_algorithms_server_to_client=[list(SshMacAlgorithm)[1]],
          compression_algorithms_client_to_server=[list(SshCompressionAlgorithm)[0]], compression_algorithms_server_to_client=[list(SshCompressionAlgorithm)[0]],
          cookie=bytes(range(16)))
    return bytes(o.compose())


def k5_search(seed, hints=()):
    base = sample_bytes()
    tail = len(base) - 5                       # the boolean octet, then uint32 reserved
    cands = [base] + [base[:tail] + bytes([v]) + base[tail + 1:] for v in (0, 1, 2, 0x7f, 0x80, 0xff)] + \
            [base[:-4] + (v).to_bytes(4, 'big') for v in (1, 0xffffffff)]
    for d in cands:
        w = k5_native(d)
        if w.get('reproduced'):
            return w
    return dict(reproduced=False)


def k5_unit():
    def run():
        _setup()
        return vc.run_unit('kexinit-k5', k5_thunk, max_paths=3000)

    def replay(inputs):
        data = e1.bytes_of(inputs)
        w = k5_native(data) if data is not None else dict(reproduced=False)
        return w if w.get('reproduced') else k5_search(0)
    return Unit('K5/ssh.subprotocol.SshKeyExchangeInit (name-lists by their class contracts)', run, replay=replay, search=k5_search,
                clause='K5', functions=['SshKeyExchangeInit._parse', 'SshKeyExchangeInit.compose'])


def k6_thunk():
    from cryptoparser.ssh import subprotocol as SP
    from spec.wire import cat, u8, u32
    from spec import ssh as SS
    from pyvc.values import SObj, SInt, SBool
    P = E.cur()
    C = SP.SshKeyExchangeInit
    P.top_class = C
    classes = dict(kex_algorithms=SP.SshKexAlgorithmVector, host_key_algorithms=SP.SshHostKeyAlgorithmVector,
                   encryption_algorithms_client_to_server=SP.SshEncryptionAlgorithmVector,
                   encryption_algorithms_server_to_client=SP.SshEncryptionAlgorithmVector,
                   mac_algorithms_client_to_server=SP.SshMacAlgorithmVector, mac_algorithms_server_to_client=SP.SshMacAlgorithmVector,
                   compression_algorithms_client_to_server=SP.SshCompressionAlgorithmVector,
                   compression_algorithms_server_to_client=SP.SshCompressionAlgorithmVector,
                   languages_client_to_server=SP.SshLanguageVector, languages_server_to_client=SP.SshLanguageVector)
    fields, lists = {}, []
    for name in FIELDS:
        w, facts = V.base_seq('namelist_' + name, 'bytearray')
        for f in facts:
            P.assume(f)
        v = SObj(classes[name])
        v.abstract, v.abstract_of, v.abstract_id = True, classes[name], V.fresh_int('obj')
        v.f['_abs_compose'] = w
        fields[name] = v
        lists.append(w)
        P.inputs['namelist_' + name] = w
    cookie, facts = V.base_seq('cookie')
    for f in facts:
        P.assume(f)
    P.assume(cookie.n == 16)
    follows = z3.Bool('first_kex_packet_follows')
    reserved = z3.Int('reserved')
    P.assume(z3.And(reserved >= 0, reserved < 2 ** 32))
    P.inputs.update(cookie=cookie, first_kex_packet_follows=SBool(follows), reserved=SInt(reserved))
    o = SObj(C, dict(fields, cookie=cookie, first_kex_packet_follows=SBool(follows), reserved=SInt(reserved)))
    out = vc.outcome_of(lambda: I.call(I.getattr_(o, 'compose'), [], {}))
    if out.kind != 'ret':
        e1.record_path_fact(P, 'K6 SshKeyExchangeInit: compose refuses only with the library errors (raised %s)' % out.value.cls.__name__,
                            issubclass(out.value.cls, e1.FOUR))
        return
    wire = ops.as_seq(out.value).copy('bytes')
    # RFC 4253 7.1: byte SSH_MSG_KEXINIT, byte[16] cookie, ten name-lists in this order, boolean first_kex_packet_follows, uint32 0
    want = cat(u8(SS.MSG['KEXINIT']), cookie, *(lists + [u8(z3.If(follows, 1, 0)), u32(reserved)]))
    vc.oblige_equal(P, 'K6 SshKeyExchangeInit: message number, cookie, the ten name-lists in RFC 4253 7.1 order, boolean, reserved', wire, want)


def k6_native(seed=0, hints=()):
    import struct
    from cryptoparser.ssh.subprotocol import SshKeyExchangeInit as C
    base = sample_bytes()
    o = C.parse_exact_size(base)
    nl = lambda v: (lambda b: struct.pack('!I', len(b)) + b)(','.join(x if isinstance(x, str) else x.value.code for x in v).encode())
    want = b'\x14' + bytes(o.cookie) + b''.join(nl(getattr(o, f)) for f in FIELDS) + (b'\x01' if o.first_kex_packet_follows else b'\x00') + \
        struct.pack('!I', o.reserved)
    got = bytes(o.compose())
    if got != want:
        return dict(reproduced=True, call='SshKeyExchangeInit(...).compose()', expected=want.hex()[:120], observed=got.hex()[:120], key='kexinit layout')
    return dict(reproduced=False)


def k6_unit():
    def run():
        _setup()
        return vc.run_unit('kexinit-k6', k6_thunk, max_paths=200)
    return Unit('K6/ssh.subprotocol.SshKeyExchangeInit (name-lists by their class contracts)', run, replay=lambda inputs: k6_native(0),
                search=k6_native, clause='K6', functions=['SshKeyExchangeInit.compose', 'spec.ssh KEXINIT'])
