# OpenVPN control channel packets, read direction of the first octet: opcode in the high five bits, KEY ID in the low three
# (OpenVPN protocol, "packet opcode and key_id are combined into one byte"). The library does not carry the key id (it composes 0
# and drops it when parsing), so the round trip K3 only ever shows the parser the key id 0. Stated here on the real _parse:
# the bytes of a symbolic valid packet (those the specification prescribes, by K6 of the class), with ANY key id 0..7 in the low three bits of the first
# octet, are accepted, consumed entirely and give the packet back.
import z3

from pyvc import values as V, engine as E, interp as I, ops, vc, gen
from pyvc.runner import Unit
from checks import common, e1, e2

CLASSES = ('OpenVpnPacketAckV1', 'OpenVpnPacketHardResetClientV2', 'OpenVpnPacketHardResetServerV2')


def thunk_for(cls):
    def thunk():
        from checks import regions
        P = E.cur()
        P.top_class = cls
        obj = gen.sym_object(P, cls, 'o')
        P.inputs['object'] = obj
        regions.exclude(P, obj)
        regions.exclude(P, obj, clause='K3')
        out = vc.outcome_of(lambda: I.call(I.getattr_(obj, 'compose'), [], {}))
        if out.kind != 'ret':
            raise E.PathEnd()                  # outside the domain of compose (field ranges): no packet to read
        want = ops.as_seq(out.value).copy('bytes')      # equal to the specification's bytes by K6 of the class (its own unit)
        k = z3.Int('key_id')
        P.assume(z3.And(k >= 0, k <= 7))
        P.inputs['key_id'] = V.SInt(k)
        first = want.at(0)
        P.oblige('the specification leaves the key id bits of the first octet free (opcode << 3)', first % 8 == 0)
        buf = V.concat(V.SSeq(z3.IntVal(1), lambda j: first + k, 'bytes'), V.slice_seq(want, 1, want.n), 'bytes')
        res = vc.outcome_of(lambda: I.call(cls.parse_immutable, [buf], {}))
        e1.record_path_fact(P, 'key id: a packet as specified with any key id 0..7 is accepted%s' % (
            '' if res.kind == 'ret' else ' (raised %s)' % res.value.cls.__name__), res.kind == 'ret')
        if res.kind != 'ret':
            return
        o2, n = res.value
        P.oblige('key id: the whole packet is consumed', ops.as_int(n) == buf.n)
        vc.oblige_equal(P, 'key id: the packet is read back whatever the key id', o2, obj)
    return thunk


def native_for(cls):
    def native(seed=0, hints=()):
        samples = {'OpenVpnPacketAckV1': lambda: cls(0x0102030405060708, [1, 2], 0x1112131415161718),
                   'OpenVpnPacketHardResetClientV2': lambda: cls(0x0102030405060708, 0),
                   'OpenVpnPacketHardResetServerV2': lambda: cls(0x0102030405060708, 0x1112131415161718, [0], 0)}
        try:
            o = samples[cls.__name__]()
            wire = bytes(o.compose())
        except Exception:
            return dict(reproduced=False)
        for k in range(8):
            w = bytes([wire[0] | k]) + wire[1:]
            call = '%s.parse_immutable(<composed packet with key id %d: first octet 0x%02x>)' % (cls.__name__, k, w[0])
            try:
                o2, n = cls.parse_immutable(w)
            except Exception as ex:
                return dict(reproduced=True, call=call, expected='accepted', observed=repr(ex)[:160], key='openvpn key id')
            if n != len(w) or o2 != o:
                return dict(reproduced=True, call=call, expected='the same packet, %d consumed' % len(w), observed='%r, %d' % (o2 == o, n), key='openvpn key id')
        return dict(reproduced=False)
    return native


def units():
    out = []
    by_name = {c.__name__: c for c in e1.binary_classes()}
    for n in CLASSES:
        cls = by_name[n]

        def run(cls=cls):
            e2.setup()
            gen.BOUNDED_NOTES.clear()
            r = vc.run_unit('openvpn-keyid-' + cls.__name__, thunk_for(cls), max_paths=2000)
            if gen.BOUNDED_NOTES:
                r.extra['bounded'] = sorted(set(r.extra.get('bounded', [])) | gen.BOUNDED_NOTES)
            return r
        s = native_for(cls)
        out.append(Unit('key-id/%s (any key id in the first octet)' % common.class_key(cls), run, replay=lambda inputs, s=s: s(0), search=s,
                        clause='K3 read direction', functions=['OpenVpnPacketBase.parse_header', '%s._parse' % n]))
    return out
