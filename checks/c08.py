# C08 -- DNSSEC and mail-related DNS record data follow the RFCs, key tag included
#
#   key tag   the real DnsRecordDnskey.key_tag body is run on an ARBITRARY rdata byte string (the result of self.compose() is
#             a contract: any bytes) under a loop contract for its `while` loop; the result must equal the RFC 4034
#             Appendix B value, stated through the recursive specification function ac(i) (ac(0) = 0, ac(i+1) = ac(i) +
#             (i even ? 256 * rdata[i] : rdata[i])), and the B.1 rule for algorithm 1 (RSA/MD5).
#   layout    K6 (+K3 where the parser is within reach) of DS, TXT, MX, RRSIG, the uncompressed name and the DNSKEY header
#             against spec/dns.py.
import z3

from cryptoparser.dnsrec.record import DnsRecordDnskey, DnsSecFlag, DnsSecProtocol
from cryptodatahub.dnsrec.algorithm import DnsSecAlgorithm

from pyvc import values as V, engine as E, interp as I, ops, vc, frame as F, loops
from pyvc.runner import Unit
from pyvc.values import SObj, SInt, SEnum
from checks import common, e1, e2, regions

TRUSTED_BASE = common.TRUSTED_BASE
ASSUMPTIONS = common.ASSUMPTIONS + [
    'specification functions in /verif/spec/dns.py are transcribed from RFC 1035 3.1/3.3.9/3.3.14 and RFC 4034 2.1/3.1/5.1 and Appendix B from memory (no RFC text in the sandbox)',
    'key tag: DnsRecordDnskey.compose() is replaced by its contract "returns some byte string" (its layout is stated separately); the key tag is then verified as a function of those bytes for every byte string of every length',
    'IDNA ToASCII (text.encode("idna")) is an uninterpreted function of the label text, shared by the code model and the name specification, with the codec guarantees (at most 63 ASCII octets, empty only for empty text) and ToUnicode(ToASCII(label)) == label; the algorithms themselves (stdlib encodings.idna) are not verified',
]
UNCOVERED = []
BOUNDED = ['domain names: label lists of at most 1 label in the symbolic objects (the label text and its length are unbounded)']

KF_ODD = 'KF-C08-keytag-odd-length'


def listed(fid):
    import json, os
    p = os.path.join(common.HERE, 'known_findings.json')
    return any(f.get('id') == fid for f in json.load(open(p)).get('findings', []))


# ---------------------------------------------------------------------------------------------------- key tag
def _ac(P):
    f = P.__dict__.get('rfc_ac')
    if f is None:
        f = z3.Function('rfc4034_ac', z3.IntSort(), z3.IntSort())
        P.rfc_ac = f
        P.assume(f(0) == 0)
    return f


def _unfold(P, b, i):
    """instance of the definition of ac at index i (a lemma instantiation: the definition is total and consistent)"""
    ac = _ac(P)
    P.assume(ac(i + 1) == ac(i) + z3.If(i % 2 == 0, 256 * b.at(i), b.at(i)))


def keytag_loop_invariant(frame):
    P = E.cur()
    parser = frame.lookup('parser')
    b = parser.f['_parsable']
    p = ops.as_int(parser.f['_parsed_length'])
    kt = ops.as_int(frame.lookup('key_tag'))
    _unfold(P, b, p)
    _unfold(P, b, p + 1)
    return [('0 <= parsed_length <= len(rdata)', z3.And(p >= 0, p <= b.n)),
            ('parsed_length is even', p % 2 == 0),
            ('key_tag == ac(parsed_length)', kt == _ac(P)(p))]


def register_keytag_contracts():
    F.LOOPS[('DnsRecordDnskey.key_tag', 0)] = loops.HavocLoop(['key_tag', 'parser._parsed_length'], keytag_loop_invariant)


def rfc_keytag(P, b):
    """RFC 4034 Appendix B: ac over all octets, then ac += (ac >> 16) & 0xFFFF; return ac & 0xFFFF"""
    T = _ac(P)(b.n)
    return (T + (T / 65536) % 65536) % 65536


def keytag_unit(odd_is_known):
    def thunk():
        P = E.cur()
        register_keytag_contracts()
        rdata, facts = V.base_seq('rdata')
        for f in facts:
            P.assume(f)
        P.inputs['rdata'] = rdata
        idx = z3.Int('algorithm')
        members = list(DnsSecAlgorithm)
        P.assume(z3.And(idx >= 0, idx < len(members)))
        alg = SEnum(DnsSecAlgorithm, idx)
        P.inputs['algorithm'] = alg
        modulus = z3.Int('modulus')
        P.assume(modulus >= 0)
        P.inputs['modulus'] = SInt(modulus)

        class _Params(object):
            pass

        class _Key(object):
            pass
        key = SObj(_Key, dict(params=SObj(_Params, dict(modulus=SInt(modulus)))))
        o = SObj(DnsRecordDnskey, dict(flags=[], algorithm=alg, key=key, protocol=DnsSecProtocol.V3))
        import attr as _attr
        for a in _attr.fields(DnsRecordDnskey):              # fields the constructor fills with a default (none today)
            if a.name not in o.f and a.default is not _attr.NOTHING and not isinstance(a.default, _attr.Factory):
                o.f[a.name] = a.default
        I.CONTRACTS[DnsRecordDnskey.compose] = lambda self: rdata.copy('bytearray')
        before = dict(o.f)
        try:
            out = vc.outcome_of(lambda: I.call(DnsRecordDnskey.key_tag.fget, [o], {}))
        finally:
            I.CONTRACTS.pop(DnsRecordDnskey.compose, None)
        if out.kind != 'ret':
            e1.record_path_fact(P, 'key_tag returns a value (raised %s)' % out.value.cls.__name__, False)
            return
        r = out.value
        # the observer is pure: reading the key tag writes nothing to the record (no cached tag that could go stale)
        e1.record_path_fact(P, 'key_tag leaves the record untouched (same attributes, same values)',
                            set(o.f) == set(before) and all(o.f[k] is before[k] for k in before))
        r = ops.as_int(r)
        is_md5 = idx == members.index(DnsSecAlgorithm.RSAMD5)
        # definition instances needed after the loop: the trailing octet of an odd-length rdata
        _unfold(P, rdata, rdata.n - 1)
        P.oblige('key tag of algorithm 1 (RSA/MD5) is the most significant 16 of the least significant 24 bits of the modulus (RFC 4034 B.1)',
                 z3.Implies(is_md5, r == (modulus / 256) % 65536))
        with P.scope():
            if odd_is_known:
                P.assume(rdata.n % 2 == 0)           # the listed finding: odd-length RDATA (replayed natively on every run)
            P.oblige('key tag equals the RFC 4034 Appendix B value over the RDATA%s' % (' (even length)' if odd_is_known else ''),
                     z3.Implies(z3.Not(is_md5), r == rfc_keytag(P, rdata)))
        P.oblige('key tag is a 16 bit value', z3.And(r >= 0, r < 65536))
    return lambda: (e1.setup(), vc.run_unit('key_tag', thunk))[1]


def rfc4034_keytag_native(rdata):
    ac = 0
    for i, b in enumerate(bytearray(rdata)):
        ac += b if i & 1 else b << 8
    ac += (ac >> 16) & 0xffff
    return ac & 0xffff


def _rsa_dnskey(exponent, modulus, alg=DnsSecAlgorithm.RSASHA256):
    from cryptodatahub.common.key import PublicKey, PublicKeyParamsRsa
    return DnsRecordDnskey(flags=[DnsSecFlag.DNS_ZONE_KEY], algorithm=alg, protocol=DnsSecProtocol.V3,
                           key=PublicKey.from_params(PublicKeyParamsRsa(public_exponent=exponent, modulus=modulus)))


def keytag_native(k, only_even=False):
    state = dict(vars(k))
    first = k.key_tag
    if vars(k) != state:
        return dict(reproduced=True, call='%r.key_tag' % (k,), expected='the record is not modified by reading its key tag',
                    observed='attributes after the call: %r' % ({a: v for a, v in vars(k).items() if state.get(a, None) is not v},), key='observer writes')
    # the tag follows an edit of the record (nothing cached)
    try:
        edited = type(k)(flags=list(k.flags) + [f for f in DnsSecFlag if f not in k.flags][:1], algorithm=k.algorithm, key=k.key, protocol=k.protocol)
        flags_before = list(k.flags)
        k.flags = list(edited.flags)
        second = k.key_tag
        k.flags = flags_before
        if second != edited.key_tag:
            return dict(reproduced=True, call='%r.key_tag, then flags edited, then key_tag' % (k,), expected=edited.key_tag, observed=second, key='stale tag')
    except Exception:
        pass
    rdata = bytes(k.compose())
    if only_even and len(rdata) % 2:
        return dict(reproduced=False)
    if k.algorithm == DnsSecAlgorithm.RSAMD5:
        want = (k.key.params.modulus & 0xffffff) >> 8
    else:
        want = rfc4034_keytag_native(rdata)
    got = k.key_tag
    if got != want:
        return dict(reproduced=True, call='%r.key_tag  (RDATA %s, %d octets)' % (k, rdata.hex(), len(rdata)), expected=want, observed=got,
                    key='odd length' if len(rdata) % 2 else 'even length')
    return dict(reproduced=False)


def keytag_search(only_even):
    def search(seed, hints=()):
        import random
        rnd = random.Random(seed)
        for _ in range(60):
            e = rnd.choice((3, 17, 257, 65537, rnd.getrandbits(rnd.randrange(2, 40)) | 1))
            m = rnd.getrandbits(rnd.choice((512, 1016, 1024, 1032, 2048))) | 1 | (1 << 511)
            for alg in (DnsSecAlgorithm.RSASHA256, DnsSecAlgorithm.RSASHA1, DnsSecAlgorithm.RSAMD5):
                try:
                    k = _rsa_dnskey(e, m, alg)
                except Exception:
                    continue
                w = keytag_native(k, only_even)
                if w.get('reproduced'):
                    return w
        return dict(reproduced=False)
    return search


def keytag_replay(only_even):
    def replay(inputs):
        """the counter-model is an rdata byte string: the real key_tag body is run on it through a subclass whose compose()
        returns exactly those bytes (the contract the proof used); real key objects are then searched"""
        rd = inputs.get('rdata')
        if isinstance(rd, dict) and 'hex' in rd:
            data = bytes.fromhex(rd['hex'])
            if not (only_even and len(data) % 2):
                class _Fixed(DnsRecordDnskey):
                    def compose(self):
                        return bytearray(data)
                k = _rsa_dnskey(65537, (1 << 1023) | 1)
                k.__class__ = _Fixed
                got, want = k.key_tag, rfc4034_keytag_native(data)
                if got != want:
                    return dict(reproduced=True, call='DnsRecordDnskey.key_tag with compose() == bytes.fromhex(%r)' % data.hex(),
                                expected=want, observed=got, key='odd length' if len(data) % 2 else 'even length')
        return keytag_search(only_even)(1)
    return replay


def w_keytag_odd():
    return keytag_native(_rsa_dnskey(65537, (1 << 1015) | 0x1234567))


# ---------------------------------------------------------------------------------------------------- DNSKEY key field
KF_ED448 = 'KF-C08-ed448-key-56-octets'


def rfc_key_field_size(alg_idx, b):
    """length of the public key field per algorithm, from the RFCs: RFC 8080 3 (Ed25519 32, Ed448 57 octets), RFC 6605 4
    (P-256 64, P-384 96 octets), RFC 5933 5.1 (GOST 64 octets), RFC 2536 2 (DSA: T, Q 20 octets, P, G, Y 64 + 8T octets each);
    RSA (RFC 3110 2) takes the whole field: None"""
    members = list(DnsSecAlgorithm)
    ix = lambda m: alg_idx == members.index(m)
    fixed = [(DnsSecAlgorithm.ED25519, 32), (DnsSecAlgorithm.ED448, 57), (DnsSecAlgorithm.ECDSAP256SHA256, 64),
             (DnsSecAlgorithm.ECDSAP384SHA384, 96), (DnsSecAlgorithm.ECCGOST, 64)]
    dsa = [m for m in members if m.name.startswith('DSA')]
    cases = [(ix(m), z3.IntVal(n)) for m, n in fixed] + [(ix(m), 1 + 20 + 3 * (64 + 8 * b.at(0))) for m in dsa]
    return cases


def parse_key_unit(ed448_known):
    def thunk():
        P = E.cur()
        b, facts = V.base_seq('key_field')
        for f in facts:
            P.assume(f)
        P.inputs['key_field'] = b
        idx = z3.Int('algorithm')
        members = list(DnsSecAlgorithm)
        P.assume(z3.And(idx >= 0, idx < len(members)))
        alg = SEnum(DnsSecAlgorithm, idx)
        P.inputs['algorithm'] = alg
        out = vc.outcome_of(lambda: I.call(DnsRecordDnskey.parse_key, [b, alg], {}))
        if out.kind == 'raise':
            e1.record_path_fact(P, 'parse_key rejects only with the four parse errors or NotImplementedError for key types without a layout (got %s)'
                                % out.value.cls.__name__, issubclass(out.value.cls, e1.FOUR + (NotImplementedError,)))
            raise E.PathEnd()
        for cond, size in rfc_key_field_size(idx, b):
            with P.scope():
                if ed448_known:
                    P.assume(idx != members.index(DnsSecAlgorithm.ED448))
                P.oblige('an accepted public key field has exactly the length the RFC gives for the algorithm (no trailing octets dropped)',
                         z3.Implies(cond, b.n == size))
    return lambda: (e1.setup(), vc.run_unit('parse_key', thunk, max_paths=3000))[1]


def parse_key_native(data, alg, ed448_known=False):
    sizes = {'ED25519': 32, 'ED448': 57, 'ECDSAP256SHA256': 64, 'ECDSAP384SHA384': 96, 'ECCGOST': 64}
    if alg.name not in sizes or (ed448_known and alg.name == 'ED448'):
        return dict(reproduced=False)
    try:
        DnsRecordDnskey.parse_key(data, alg)
    except Exception:
        return dict(reproduced=False)
    if len(data) != sizes[alg.name]:
        return dict(reproduced=True, call='DnsRecordDnskey.parse_key(bytes.fromhex(%r), DnsSecAlgorithm.%s)' % (data.hex(), alg.name),
                    expected='accepted only with %d octets' % sizes[alg.name], observed='accepted %d octets' % len(data),
                    key='key field length')
    return dict(reproduced=False)


def parse_key_replay(ed448_known):
    def replay(inputs):
        kf, alg = inputs.get('key_field'), inputs.get('algorithm')
        if isinstance(kf, dict) and 'hex' in kf and isinstance(alg, dict) and 'member' in alg:
            return parse_key_native(bytes.fromhex(kf['hex']), DnsSecAlgorithm[alg['member']], ed448_known)
        return dict(reproduced=False)
    return replay


def parse_key_search(ed448_known):
    def search(seed, hints=()):
        for alg in DnsSecAlgorithm:
            for n in (31, 32, 33, 56, 57, 58, 63, 64, 65, 95, 96, 97):
                w = parse_key_native(bytes(range(1, n + 1)), alg, ed448_known)
                if w.get('reproduced'):
                    return w
        return dict(reproduced=False)
    return search


def w_ed448():
    w = parse_key_native(bytes(56), DnsSecAlgorithm.ED448)
    return w


# ---------------------------------------------------------------------------------------------------- RSA key field
def rsa_key_layout_unit():
    """RFC 3110 2: exponent length in ONE octet if it is 1..255, otherwise a zero octet followed by the length in two octets;
    then the exponent, then the modulus. The real _compose_public_key_rsa runs on a stub key with a symbolic exponent and
    modulus; compose_mpint (a fixed-length big-endian integer, C11's subject) enters by the contract 'appends FX(value, length),
    a byte string of that length'"""
    def thunk():
        from cryptoparser.common.parse import ComposerBinary
        from spec.wire import cat, u8, u16
        P = E.cur()
        e, m, ks = z3.Int('public_exponent'), z3.Int('modulus'), z3.Int('key_size')
        P.assume(z3.And(e >= 1, m >= 1, ks >= 8))
        P.inputs.update(public_exponent=SInt(e), modulus=SInt(m), key_size=SInt(ks))

        class _Stub(object):
            pass
        key = SObj(_Stub, dict(params=SObj(_Stub, dict(public_exponent=SInt(e), modulus=SInt(m))), key_size=SInt(ks)))
        memo = []

        def FX(value, length):
            v, ln = ops.as_int(value), ops.as_int(length)
            for v0, l0, s0 in memo:
                if P.entails(z3.And(v0 == v, l0 == ln)):
                    return s0
            s, facts = V.base_seq('fixed_int', 'bytes')
            for f in facts:
                P.assume(f)
            P.assume(s.n == ln)
            memo.append((v, ln, s))
            return s

        def spec_compose_mpint(self, value, length):
            if P.branch(ops.as_int(length) < 0):
                raise I.Decline()
            self.f['_composed'] = V.concat(ops.as_seq(self.f['_composed']), FX(value, length), 'bytearray')
            return None
        I.CONTRACTS[ComposerBinary.compose_mpint] = spec_compose_mpint
        try:
            c = I.construct(ComposerBinary, [], {})
            out = vc.outcome_of(lambda: I.call(DnsRecordDnskey._compose_public_key_rsa, [c, key], {}))
        finally:
            I.CONTRACTS.pop(ComposerBinary.compose_mpint, None)
        if out.kind != 'ret':
            e1.record_path_fact(P, 'RSA key field: compose refuses only with the library errors (raised %s)' % out.value.cls.__name__,
                                issubclass(out.value.cls, e1.FOUR))
            return
        wire = ops.as_seq(c.f['_composed']).copy('bytes')
        # the exponent length is the length the code hands to compose_mpint for the exponent (its value, the minimal
        # number of octets of e, comes from int.bit_length: a library fact, not re-derived here)
        el = next((l0 for v0, l0, s0 in memo if P.entails(v0 == e)), None)
        if el is None:
            e1.record_path_fact(P, 'RSA key field: the exponent is written with compose_mpint', False)
            return
        P.oblige('RSA key field: the exponent is written with at least one octet', el >= 1)
        # RFC 3110 2: "leading zero octets are prohibited in the exponent and modulus" - each occupies the minimal number of
        # octets, ceil(bit_length / 8); bit_length is the interpreter's model of int.bit_length (one result per term), so the
        # lengths the code hands to compose_mpint are compared with the specification's, wherever the code takes them from
        from pyvc.models import _int_bit_length
        ml = next((l0 for v0, l0, s0 in memo if P.entails(v0 == m) and not P.entails(v0 == e)), None)
        if ml is None:
            ml = next((l0 for v0, l0, s0 in reversed(memo) if P.entails(v0 == m)), None)
        if ml is None:
            e1.record_path_fact(P, 'RSA key field: the modulus is written with compose_mpint', False)
            return
        P.oblige('RSA key field: the exponent occupies ceil(bit_length / 8) octets (no leading zero octets, RFC 3110 2)',
                 el == (ops.as_int(_int_bit_length(SInt(e))) + 7) / 8)
        P.oblige('RSA key field: the modulus occupies ceil(bit_length / 8) octets (no leading zero octets, RFC 3110 2)',
                 ml == (ops.as_int(_int_bit_length(SInt(m))) + 7) / 8)
        if P.branch(el <= 255):
            prefix = cat(u8(el))
        else:
            prefix = cat(u8(0), u16(el))
        vc.oblige_equal(P, 'RSA key field: exponent length (1 octet for 1..255, else 0 + 2 octets), exponent, modulus (RFC 3110 2)',
                        wire, cat(prefix, FX(SInt(e), SInt(el)), FX(SInt(m), SInt(ml))))

    def native(seed=0, hints=()):
        cases = [((1 << (8 * eb - 1)) | 1, (1 << 1023) | 1) for eb in (1, 3, 254, 255, 256, 257)]
        # moduli just above a power of 256 (the external bit size of such a key is one octet short), ordinary odd sizes
        cases += [(65537, (1 << nb) | 1) for nb in (1024, 1032, 2048, 1030, 1027)] + [(65537, (1 << 1024) - 1), (3, (1 << 511) | 1)]
        for e, n in cases:
            try:
                k = _rsa_dnskey(e, n)
            except Exception:
                continue                                         # the key object itself cannot be built: not this clause
            eb, nb = (e.bit_length() + 7) // 8, (n.bit_length() + 7) // 8
            call = 'DNSKEY with an RSA exponent of %d octets and a modulus of %d bits: key field of compose()' % (eb, n.bit_length())
            try:
                rdata = bytes(k.compose())[4:]
            except Exception as ex:
                return dict(reproduced=True, call=call, expected='composed (RFC 3110 2 admits every modulus)', observed=repr(ex)[:160],
                            key='rsa key field')
            want = (bytes([eb]) if eb <= 255 else b'\x00' + eb.to_bytes(2, 'big')) + e.to_bytes(eb, 'big') + n.to_bytes(nb, 'big')
            if rdata != want:
                return dict(reproduced=True, call=call, expected=want[:6].hex() + '... (%d octets)' % len(want),
                            observed=rdata[:6].hex() + '... (%d octets)' % len(rdata), key='rsa key field')
        return dict(reproduced=False)
    return Unit('K6-key/RSA (RFC 3110)', lambda: (e1.setup(), vc.run_unit('rsa-key', thunk, max_paths=200))[1], replay=lambda inputs: native(0),
                search=native, clause='K6 key material', functions=['DnsRecordDnskey._compose_public_key_rsa'])


# ---------------------------------------------------------------------------------------------------- DNSKEY header
def dnskey_header_unit():
    def thunk():
        from pyvc import gen
        from spec import dns as SD, wire as W
        P = E.cur()
        P.top_class = DnsRecordDnskey
        # the fields the header is laid out from, each fully symbolic; the constructor's key/algorithm compatibility rule
        # concerns the external key object only and is not run
        o = SObj(DnsRecordDnskey, dict(flags=gen.make(P, ('flags', DnsSecFlag), 'flags', 1),
                                       algorithm=gen.make(P, ('enum', DnsSecAlgorithm), 'algorithm', 1),
                                       protocol=DnsSecProtocol.V3,                 # the only member
                                       key=V.SAbs('public_key', z3.Int('key'))))
        P.inputs['object'] = o
        kb, facts = V.base_seq('key_bytes')
        for f in facts:
            P.assume(f)
        P.inputs['key_bytes'] = kb
        I.CONTRACTS[DnsRecordDnskey.compose_key] = lambda key: kb.copy('bytearray')
        try:
            out = vc.outcome_of(lambda: I.call(I.getattr_(o, 'compose'), [], {}))
        finally:
            I.CONTRACTS.pop(DnsRecordDnskey.compose_key, None)
        if out.kind == 'raise':
            raise E.PathEnd()
        wire = ops.as_seq(out.value)
        vc.oblige_equal(P, 'K6 DnsRecordDnskey: flags (2), protocol (1), algorithm (1), then the public key (RFC 4034 2.1)',
                        wire.copy('bytes'), SD.dnskey(W.lift_deep(o), kb))
    return lambda: (e2.setup(), vc.run_unit('dnskey-header', thunk))[1]


# ---------------------------------------------------------------------------------------------------- units
ROUNDTRIP = ('DnsRecordDs', 'DnsRecordTxt', 'DnsRecordMx', 'DnsRecordRrsig', 'DnsNameUncompressed')      # K6 + K3
COMPOSE_ONLY = ()


def name_acceptance_unit():
    """RFC 1035 2.3.4 / 3.1: a domain name on the wire is a sequence of labels of 1..63 octets closed by the zero octet of
    the root label and is 255 octets or less in all. Stated on the real DnsNameUncompressed._parse with its label loop under
    the progress contract of C19 (state after any number of iterations: 0 <= parsed_length <= len(buffer)): once the loop
    has been left through the root label - every label before it was accepted - nothing that follows may reject a name of
    at most 255 octets. (What one iteration rejects - label longer than 63, buffer too short, IDNA - is K1/C02.)"""
    from checks import c19
    from pyvc import frame as F, loops

    def run():
        from cryptoparser.dnsrec.record import DnsNameUncompressed as C
        e1.setup()
        c19.register_progress_contracts()
        base = F.LOOPS[('DnsNameUncompressed._parse', 0)]

        class LabelLoop(loops.ProgressLoop):
            def on_break(self, frame, ctx, k):
                P = E.cur()
                P.name_wire_length = c19._parser_state(frame)[1]
                return loops.ProgressLoop.on_break(self, frame, ctx, k)
        F.LOOPS[('DnsNameUncompressed._parse', 0)] = LabelLoop(base.variables, base.measure, base.limit, base._inv, base.step)

        def thunk():
            P = E.cur()
            buf, facts = V.base_seq('buf')
            for f in facts:
                P.assume(f)
            P.inputs['buf'] = buf
            P.buf = buf
            P.top_class = C
            P.name_wire_length = None
            out = vc.outcome_of(lambda: I.call(C.parse_immutable, [buf], {}))
            n = P.name_wire_length
            if n is None:
                return                                           # rejected inside an iteration, or cut: not this clause
            P.reached_root_label = True
            if out.kind == 'ret':
                P.oblige('name: the consumed length is the wire length of the name', ops.as_int(out.value[1]) == n)
            else:
                P.oblige('name: all labels accepted and the root label read - only a name longer than 255 octets may still be '
                         'rejected (raised %s)' % out.value.cls.__name__, n > 255)
        res = vc.run_unit('dns-name-acceptance', thunk, max_paths=2000)
        keep = [o for o in res.obligations if o['name'].startswith('name:')]
        if not any(o['name'].startswith('name: the consumed length') for o in keep) and not res.unsupported:
            res.unsupported.append('no accepting path through the root label was explored')
        res.obligations = keep
        return res

    def native(seed=0, hints=()):
        from cryptoparser.dnsrec.record import DnsNameUncompressed as C
        for total in (1, 2, 64, 65, 129, 193, 250, 252, 253, 254, 255):
            rest, wire = total - 1, b''
            while rest > 0:
                k = min(63, rest - 1)
                if k == 0:
                    break
                wire += bytes([k]) + b'a' * k
                rest -= k + 1
            wire += b'\x00'
            if len(wire) != total:
                continue
            call = 'DnsNameUncompressed.parse_immutable(<name of %d octets: labels of %s>)' % (total, [wire[0]] if total > 1 else [])
            try:
                o, n = C.parse_immutable(wire)
            except Exception as ex:
                return dict(reproduced=True, call=call, expected='accepted (RFC 1035: names of up to 255 octets)', observed=repr(ex)[:160], key='name length')
            if n != total or bytes(o.compose()) != wire:
                return dict(reproduced=True, call=call, expected='%d consumed, the same octets composed' % total, observed='%d, %s' % (n, bytes(o.compose()).hex()[:60]), key='name length')
        return dict(reproduced=False)
    return Unit('accept/dnsrec.record.DnsNameUncompressed (names of up to 255 octets)', run, replay=lambda inputs: native(0), search=native,
                clause='K1a acceptance', functions=['DnsNameUncompressed._parse'])



def keytag_full_unit(name='key_tag/rfc4034-appendix-B'):
    odd_known = listed(KF_ODD)
    return Unit(name, keytag_unit(odd_known), replay=keytag_replay(odd_known), search=keytag_search(odd_known),
                clause='key tag', functions=['DnsRecordDnskey.key_tag'])


def _units_body(tier, seed):
    from checks import k6family, foundation
    out = [keytag_full_unit()]
    by_name = {c.__name__: c for c in e1.binary_classes()}
    for n in ROUNDTRIP:
        c = by_name[n]
        out.append(Unit('K6/%s' % common.class_key(c), e2.clause_unit(c, ('K6', 'K3')), replay=k6family.replay_for(c), clause='K6+K3',
                        functions=['%s.compose' % n, '%s._parse' % n, 'spec.%s' % n]))
    for n in COMPOSE_ONLY:
        c = by_name[n]
        out.append(Unit('K6-compose-only/%s' % common.class_key(c), e2.compose_only_unit(c), replay=k6family.replay_for(c), clause='K6',
                        functions=['%s.compose' % n, 'spec.%s' % n]))
    ed448_known = listed(KF_ED448)
    out.append(Unit('parse_key/key-field-length', parse_key_unit(ed448_known), replay=parse_key_replay(ed448_known),
                    search=parse_key_search(ed448_known), clause='key field length', functions=['DnsRecordDnskey.parse_key']))
    out.append(rsa_key_layout_unit())
    out.append(name_acceptance_unit())
    out.append(Unit('K6-header/dnsrec.record.DnsRecordDnskey', dnskey_header_unit(), clause='K6',
                    functions=['DnsRecordDnskey.compose', 'spec.dnskey']))
    UNCOVERED[:] = [
        'DNSKEY public key material values (RFC 3110 RSA, RFC 2536 DSA, RFC 6605 ECDSA, RFC 8080 EdDSA: which octets become which key parameter; compose_key): the key objects are cryptodatahub PublicKey values outside the interpreter; only the LENGTH of the accepted key field per algorithm (parse_key unit) and the RSA layout of compose_key (exponent length prefix, exponent, modulus) are under contract',
        'names whose labels are not in IDNA normal form (ToUnicode(ToASCII(label)) == label is assumed for the labels of the symbolic objects); DnsNameUncompressed.convert (text with dots -> labels) is not under contract',
        'TXT data longer than 255 octets (the composer emits a single character-string and rejects longer text)',
    ]
    from checks import tables as _tables
    _table_units = _tables.units(_tables.DNS)
    return out + foundation.units(tier, seed) + _table_units



def units(tier, seed):
    from checks import canary
    return list(_units_body(tier, seed)) + [canary.key_tag_zero()]


FINDING_REPLAYS = {KF_ODD: w_keytag_odd, KF_ED448: w_ed448}
