# TlsHandshakeCertificateRequest.compose under contract (RFC 5246 7.4.4; RFC 2246/4346 7.4.4 without the algorithm list):
# the class is outside the E2 exploration (budget), so the layout is stated at the level of the function, the three vectors
# entering by their class contracts (abstract objects: compose() gives some byte string):
#   K6   handshake type 13, uint24 length, certificate_types, then - only if present - supported_signature_algorithms,
#        then certificate_authorities, each verbatim and in this order
import z3

from pyvc import values as V, engine as E, interp as I, ops, vc
from pyvc.runner import Unit
from pyvc.values import SObj
from checks import e1
from checks.serverhello import _abstract


def thunk():
    from cryptoparser.tls.subprotocol import (TlsHandshakeCertificateRequest, TlsClientCertificateTypeVector, TlsDistinguishedNameVector)
    from cryptoparser.tls.extension import TlsSignatureAndHashAlgorithmVector
    from spec.wire import cat, u8, u24
    from spec.tables import TABLES
    P = E.cur()
    P.top_class = TlsHandshakeCertificateRequest
    types, w_types = _abstract(P, TlsClientCertificateTypeVector, 'certificate_types', 1)
    cas, w_cas = _abstract(P, TlsDistinguishedNameVector, 'certificate_authorities', 2)
    if P.choose('the request carries supported_signature_algorithms (TLS 1.2)'):
        algs, w_algs = _abstract(P, TlsSignatureAndHashAlgorithmVector, 'supported_signature_algorithms', 2)
        parts = [w_types, w_algs, w_cas]
    else:
        algs = None
        parts = [w_types, w_cas]
    o = SObj(TlsHandshakeCertificateRequest, dict(certificate_types=types, certificate_authorities=cas, supported_signature_algorithms=algs))
    out = vc.outcome_of(lambda: I.call(I.getattr_(o, 'compose'), [], {}))
    if out.kind != 'ret':
        e1.record_path_fact(P, 'K6 CertificateRequest: compose refuses only with the library errors (raised %s)' % out.value.cls.__name__,
                            issubclass(out.value.cls, e1.FOUR))
        return
    wire = ops.as_seq(out.value).copy('bytes')
    body = cat(*parts)
    want = cat(u8(TABLES['TlsHandshakeType']['CERTIFICATE_REQUEST']), u24(body.n), body)
    vc.oblige_equal(P, 'K6 CertificateRequest [%s]: type 13, uint24 length, certificate types%s, certificate authorities (RFC 5246 7.4.4)' % (
        ('TLS 1.2', ', signature algorithms') if algs is not None else ('TLS 1.0/1.1', '')), wire, want)


def native(seed=0, hints=()):
    import struct
    from cryptoparser.tls.subprotocol import TlsHandshakeCertificateRequest, TlsClientCertificateType, TlsDistinguishedName
    from cryptodatahub.tls.algorithm import TlsSignatureAndHashAlgorithm
    sas = list(TlsSignatureAndHashAlgorithm)
    for types in ([TlsClientCertificateType.RSA_SIGN], [TlsClientCertificateType.ECDSA_SIGN, TlsClientCertificateType.RSA_SIGN]):
        for algs in (None, [], [sas[0]], [sas[-1], sas[0]]):
            for cas in ([], [b'\x30\x00'], [b'\x30\x03abc', b'\x30\x00']):
                try:
                    o = TlsHandshakeCertificateRequest(types, [TlsDistinguishedName(c) for c in cas], algs)
                    got = bytes(o.compose())
                except Exception:
                    continue
                body = bytes([len(types)]) + bytes(int(t) for t in types)
                if algs is not None:
                    body += struct.pack('!H', 2 * len(algs)) + b''.join(struct.pack('!H', a.value.code) for a in algs)
                ca = b''.join(struct.pack('!H', len(c)) + c for c in cas)
                body += struct.pack('!H', len(ca)) + ca
                want = b'\x0d' + struct.pack('!I', len(body))[1:] + body
                if got != want:
                    return dict(reproduced=True, call='TlsHandshakeCertificateRequest(%r, %r, %r).compose()' % (types, cas, algs),
                                expected=want.hex()[:160], observed=got.hex()[:160], key='certificate request layout')
    return dict(reproduced=False)


def unit():
    def run():
        from contracts import nested
        e1.setup()
        nested.ABSTRACT_DISABLED = False
        return vc.run_unit('certificate-request', thunk, max_paths=200)
    return Unit('K6/tls.subprotocol.TlsHandshakeCertificateRequest.compose (vectors by their class contracts)', run,
                replay=lambda inputs: native(0), search=native, clause='K6', functions=['TlsHandshakeCertificateRequest.compose'])
