# enumeration of the concrete parsable classes of the repository, split into binary-layer and text-layer classes
import importlib
import inspect
import pkgutil

import cryptoparser
from cryptoparser.common.parse import ParsableBaseNoABC

TEXT_MODULES = ('cryptoparser.httpx', 'cryptoparser.dnsrec.txt', 'cryptoparser.common.field', 'cryptoparser.ssh.version',
                'cryptoparser.common.classes', 'cryptoparser.httpx.version')


def all_modules():
    out = []
    for m in pkgutil.walk_packages(cryptoparser.__path__, 'cryptoparser.'):
        try:
            out.append(importlib.import_module(m.name))
        except Exception:
            pass
    return out


def subclasses(c, seen=None):
    seen = seen if seen is not None else set()
    for s in c.__subclasses__():
        if s not in seen:
            seen.add(s)
            subclasses(s, seen)
    return seen


def concrete_parsables():
    all_modules()
    out = []
    for c in subclasses(ParsableBaseNoABC):
        if not c.__module__.startswith('cryptoparser.'):
            continue
        if inspect.isabstract(c):
            continue
        out.append(c)
    out.sort(key=lambda c: (c.__module__, c.__qualname__))
    return out


def is_text(c):
    return c.__module__.startswith(TEXT_MODULES)


if __name__ == '__main__':
    cs = concrete_parsables()
    import collections
    cnt = collections.Counter((c.__module__, is_text(c)) for c in cs)
    for k, v in sorted(cnt.items()):
        print(k, v)
    print(len(cs), sum(1 for c in cs if not is_text(c)))
