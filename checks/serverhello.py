# TlsHandshakeServerHello.compose under contract (RFC 5246 7.4.1.3, RFC 8446 4.1.3): the class is outside the E2 exploration
# (its round trip exceeds the budget), so its layout is stated at the level of the function, with every nested structure
# entering by its class contract (abstract objects: compose() gives some byte string - version, random, session id, each
# extension) and the two code points symbolic over their enumerations:
#   K6   handshake type 2, uint24 length, then version, random, session id verbatim, cipher suite (2 octets), compression
#        method (1 octet), and - if there are extensions - their two-octet length and the extensions in list order
# The length field is stated explicitly (it counts everything after the four header octets).
import z3

from pyvc import values as V, engine as E, interp as I, ops, vc
from pyvc.runner import Unit
from pyvc.values import SObj, SEnum
from checks import e1, regions

MAX_EXTENSIONS = 2


def _abstract(P, cls, name, min_len=0):
    w, facts = V.base_seq(name, 'bytearray')
    for f in facts:
        P.assume(f)
    P.assume(w.n >= min_len)
    o = SObj(cls)
    o.abstract, o.abstract_of, o.abstract_id = True, cls, V.fresh_int('obj')
    o.f['_abs_compose'] = w
    P.inputs[name] = w
    return o, w


def thunk_for(cls_name, random_field):
    return lambda: _thunk(cls_name, random_field)


def _thunk(cls_name, random_field):
    from cryptoparser.tls import subprotocol as _SP
    from cryptoparser.tls.subprotocol import TlsHandshakeHelloRandom, TlsSessionIdVector, TlsCompressionMethod
    TlsHandshakeServerHello = getattr(_SP, cls_name)
    from cryptoparser.tls.version import TlsProtocolVersion
    from cryptoparser.tls.extension import TlsExtensionVariantServer
    from cryptodatahub.tls.algorithm import TlsCipherSuite
    from spec.wire import cat, u8, u16, u24
    from spec.tables import TABLES
    P = E.cur()
    P.top_class = TlsHandshakeServerHello
    version, w_version = _abstract(P, TlsProtocolVersion, 'protocol_version')
    rnd, w_random = _abstract(P, TlsHandshakeHelloRandom, 'random')
    sid, w_sid = _abstract(P, TlsSessionIdVector, 'session_id')
    suites = list(TlsCipherSuite)
    si = V.fresh_int('cipher_suite')
    P.assume(z3.And(si >= 0, si < len(suites)))
    suite = SEnum(TlsCipherSuite, si)
    comps = list(TlsCompressionMethod)
    ci = V.fresh_int('compression_method')
    P.assume(z3.And(ci >= 0, ci < len(comps)))
    comp = SEnum(TlsCompressionMethod, ci)
    P.inputs.update(cipher_suite=suite, compression_method=comp)
    exts, w_exts = [], []
    for k in range(MAX_EXTENSIONS):
        if not P.choose('the hello has extension %d' % k):
            break
        o, w = _abstract(P, TlsExtensionVariantServer, 'extension_%d' % k, 4)
        exts.append(o)
        w_exts.append(w)
    hello = SObj(TlsHandshakeServerHello, dict({random_field: rnd}, protocol_version=version, session_id=sid, cipher_suite=suite,
                                               compression_method=comp, extensions=exts))
    out = vc.outcome_of(lambda: I.call(I.getattr_(hello, 'compose'), [], {}))
    if out.kind != 'ret':
        e1.record_path_fact(P, 'K6 ServerHello: compose refuses only with the library errors (raised %s)' % out.value.cls.__name__,
                            issubclass(out.value.cls, e1.FOUR))
        return
    wire = ops.as_seq(out.value).copy('bytes')
    # cipher suite code points: the IANA registry as carried by the cryptodatahub data table (trusted input, as everywhere);
    # compression methods likewise (RFC 3749 / RFC 3943 values in the same data table)
    suite_code = V.enum_table(TlsCipherSuite, si, lambda m: m.value.code)
    comp_code = V.enum_table(TlsCompressionMethod, ci, lambda m: m.value.code)
    body = cat(w_version, w_random, w_sid, u16(suite_code), u8(comp_code))
    if exts:
        eb = cat(*w_exts)
        body = cat(body, u16(eb.n), eb)
    # RFC 8446 4.1.4: a HelloRetryRequest IS a ServerHello on the wire (msg_type server_hello(2), the special Random value);
    # handshake type 6 is hello_retry_request_RESERVED, the message of the drafts up to 21, which had another structure
    want = cat(u8(TABLES['TlsHandshakeType']['SERVER_HELLO']), u24(body.n), body)
    label = 'ServerHello' if cls_name == 'TlsHandshakeServerHello' else 'HelloRetryRequest'
    if cls_name == 'TlsHandshakeHelloRetryRequest' and KF_HRR in regions.listed_regions():
        # listed known finding (replayed natively on every run): the type octet is 6; everything after it is still stated
        P.oblige('K6 %s [%d extensions]: as many octets as the specification prescribes' % (label, len(exts)), wire.n == want.n)
        vc.oblige_equal(P, 'K6 %s [%d extensions]: after the type octet - uint24 length, version, random, session id, cipher suite, '
                        'compression method, extension block in list order (RFC 8446 4.1.3)' % (label, len(exts)),
                        V.slice_seq(wire, 1, wire.n).copy('bytes'), V.slice_seq(want, 1, want.n).copy('bytes'))
        return
    vc.oblige_equal(P, 'K6 %s [%d extensions]: type 2, uint24 length, version, random, session id, cipher suite, compression '
                    'method, extension block in list order (RFC 5246 7.4.1.3 / RFC 8446 4.1.3)' % (label, len(exts)), wire, want)


KF_HRR = 'hello-retry-request-type-6'


def native(seed=0, hints=()):
    import datetime
    import itertools
    import struct
    from cryptoparser.tls.subprotocol import (TlsHandshakeServerHello, TlsHandshakeHelloRandom, TlsHandshakeHelloRandomBytes,
                                              TlsCompressionMethod)
    from cryptoparser.tls.version import TlsProtocolVersion
    from cryptoparser.tls.extension import TlsExtensionUnparsed, TlsExtensionsServer
    from cryptodatahub.tls.algorithm import TlsCipherSuite, TlsExtensionType
    from cryptodatahub.tls.version import TlsVersion
    T = TlsExtensionType
    pool = [TlsExtensionUnparsed(t, bytes([i + 1]) * i) for i, t in enumerate((T.PRE_SHARED_KEY, T.SERVER_NAME, T.KEY_SHARE, T.SUPPORTED_VERSIONS))]
    rnd = TlsHandshakeHelloRandom(datetime.datetime(2021, 3, 4, 5, 6, 7), TlsHandshakeHelloRandomBytes(bytearray(range(28))))
    for n in (0, 1, 2, 3):
        for combo in itertools.permutations(pool, n):
            for suite in (list(TlsCipherSuite)[0], list(TlsCipherSuite)[-1]):
                for sid in (b'', bytes(range(32))):
                    o = TlsHandshakeServerHello(protocol_version=TlsProtocolVersion(TlsVersion.TLS1_2), random=rnd, session_id=list(sid),
                                                cipher_suite=suite, extensions=TlsExtensionsServer(list(combo)))
                    eb = b''.join(bytes(e.compose()) for e in combo)
                    body = b'\x03\x03' + struct.pack('!I', 1614834367) + bytes(range(28)) + bytes([len(sid)]) + sid + \
                        struct.pack('!H', suite.value.code) + b'\x00' + ((struct.pack('!H', len(eb)) + eb) if combo else b'')
                    want = b'\x02' + struct.pack('!I', len(body))[1:] + body
                    got = bytes(o.compose())
                    if got != want:
                        return dict(reproduced=True, call='TlsHandshakeServerHello(%s, session id of %d, extensions %s).compose()' % (
                            suite.name, len(sid), [e.extension_type.name for e in combo]), expected=want.hex()[:200], observed=got.hex()[:200], key='server hello layout')
    return dict(reproduced=False)


def native_hrr(seed=0, hints=()):
    import struct
    from cryptoparser.tls.subprotocol import TlsHandshakeHelloRetryRequest, TLS_HANDSHAKE_HELLO_RETRY_REQUEST_RANDOM_BYTES
    from cryptoparser.tls.extension import TlsExtensionUnparsed, TlsExtensionsServer
    from cryptodatahub.tls.algorithm import TlsCipherSuite, TlsExtensionType
    listed = KF_HRR in regions.listed_regions()
    T = TlsExtensionType
    for exts in ([], [TlsExtensionUnparsed(T.SUPPORTED_VERSIONS, b'\x03\x04')], [TlsExtensionUnparsed(T.KEY_SHARE, b'\x00\x1d'), TlsExtensionUnparsed(T.SUPPORTED_VERSIONS, b'\x03\x04')]):
        for sid in (b'', bytes(range(32))):
            suite = list(TlsCipherSuite)[-1]
            o = TlsHandshakeHelloRetryRequest(cipher_suite=suite, session_id=list(sid), extensions=TlsExtensionsServer(exts))
            eb = b''.join(bytes(e.compose()) for e in exts)
            body = b'\x03\x04' + TLS_HANDSHAKE_HELLO_RETRY_REQUEST_RANDOM_BYTES + bytes([len(sid)]) + sid + struct.pack('!H', suite.value.code) + \
                b'\x00' + ((struct.pack('!H', len(eb)) + eb) if exts else b'')
            want = b'\x02' + struct.pack('!I', len(body))[1:] + body
            got = bytes(o.compose())
            if (got[1:] != want[1:]) or (not listed and got != want):
                return dict(reproduced=True, call='TlsHandshakeHelloRetryRequest(%s, session id of %d, %d extensions).compose()' % (suite.name, len(sid), len(exts)),
                            expected=want.hex()[:200], observed=got.hex()[:200], key='hello retry request layout')
    return dict(reproduced=False)


def _unit(cls_name, random_field, search):
    def run():
        from contracts import nested
        e1.setup()
        nested.ABSTRACT_DISABLED = False
        r = vc.run_unit('server-hello', thunk_for(cls_name, random_field), max_paths=400)
        r.extra['bounded'] = sorted(set(r.extra.get('bounded', [])) | {'extension lists of at most %d extensions (each an arbitrary byte string of its class)' % MAX_EXTENSIONS})
        return r
    return Unit('K6/tls.subprotocol.%s.compose (nested structures by their class contracts)' % cls_name, run,
                replay=lambda inputs: search(0), search=search, clause='K6', functions=['%s.compose' % cls_name, 'TlsHandshakeHello._compose_extensions'])


def unit():
    return _unit('TlsHandshakeServerHello', 'random', native)


def hrr_unit():
    return _unit('TlsHandshakeHelloRetryRequest', 'random_bytes', native_hrr)
