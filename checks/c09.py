# C09 -- opportunistic-TLS application messages match their protocol specifications (K6 against spec/opptls.py, plus K3)
from checks import common, k6family, regions
TRUSTED_BASE = common.TRUSTED_BASE
ASSUMPTIONS = common.ASSUMPTIONS + [
    'specification functions in /verif/spec/opptls.py are transcribed from the cited RFC sections from memory (no RFC text in the sandbox); a reviewer with the text can check each against its citation',
]
UNCOVERED = []
BOUNDED = ['vectors of variable-size items: at most 1 item (coded/numeric vectors: any length)']
MODULES = ('cryptoparser.tls.mysql', 'cryptoparser.tls.rdp', 'cryptoparser.tls.openvpn', 'cryptoparser.tls.postgresql', 'cryptoparser.tls.ldap')


def _units_body(tier, seed):
    us, unc = k6family.make_units('C09', MODULES, tier)
    UNCOVERED[:] = unc
    from checks import foundation
    from checks import tables as _tables
    _table_units = _tables.units(_tables.OPP)
    from checks import openvpnkey
    return list(us) + openvpnkey.units() + foundation.units(tier, seed) + _table_units



def units(tier, seed):
    from checks import canary
    return list(_units_body(tier, seed)) + [canary.e2_layout()]


FINDING_REPLAYS = regions.finding_replays('C09')
