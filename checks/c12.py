# C12 -- length-prefixed vectors stay within bounds through any edit sequence
#
# Representation invariant of ArrayBase (fixed-size item kinds: numeric, opaque, coded):
#       INV(v):  v._items_size == len(v._items) * w   and   min_byte_num <= v._items_size <= max_byte_num
# For every sequence operation op and an arbitrary vector satisfying INV (symbolic length, symbolic contents,
# symbolic position and value):
#       op succeeds  =>  INV(v') and v'._items == listop(v._items)          (refinement of a plain list)
#       op raises    =>  NotEnoughData / TooMuchData (or the list's own IndexError) and v' == v   (nothing changed)
# Each operation preserving INV and the refinement makes both inductive over edit histories of any length.
# compose(): prefix == number of body bytes and fits the prefix width follows from INV (unit compose/*).
import _collections_abc
import enum

import z3

from cryptoparser.common import base as RB
from cryptoparser.common.exception import NotEnoughData, TooMuchData

from pyvc import values as V, engine as E, interp as I, ops, vc, gen, spec as S
from pyvc.runner import Unit
from pyvc.values import SSeq, SObj, SInt
from contracts import common_base as CB
from checks import common, e1, census

TRUSTED_BASE = common.TRUSTED_BASE
ASSUMPTIONS = common.ASSUMPTIONS + [
    'collections.abc.MutableSequence mix-ins (pop, extend, __iadd__, append) are interpreted from the stdlib source file',
    'variable-size item kinds (vectors of parsable objects or strings) are outside this proof: their size function is a sum over items',
]
UNCOVERED = []
BOUNDED = ['extend/__iadd__/slice assignment are checked with two new values (vector length and contents are unbounded)']

for _n in ('pop', 'extend', '__iadd__', 'append', 'reverse', 'clear', 'remove'):
    I.INTERPRET_EXTRA.add(getattr(_collections_abc.MutableSequence, _n))


def fixed_vectors():
    out = []
    for c in census.concrete_parsables():
        if issubclass(c, RB.ArrayBase):
            try:
                param = c.get_param()
            except Exception:
                continue
            w = CB.fixed_item_size(param)
            if w is not None and not issubclass(c, RB.OpaqueEnumParsable):
                out.append((c, param, w))
    return out


def sym_vector(P, vcls, param, w):
    """an arbitrary vector object satisfying INV"""
    items = gen.make_vector_items(P, vcls, 'items', 0)
    if not isinstance(items, SSeq):
        raise E.Unsupported('vector kind of %s' % vcls.__name__)
    n = items.n
    P.assume(z3.And(n * w >= param.min_byte_num, n * w <= param.max_byte_num))
    v = SObj(vcls, dict(_items=items.copy('list'), _items_size=ops.wrap_int(n * w), param=param))
    P.inputs['vector_items'] = items
    return v, items


def sym_item(P, items, name='x'):
    t = V.fresh_int(name)
    if isinstance(items.elem, tuple) and items.elem[0] == 'enum':
        P.assume(z3.And(t >= 0, t < len(list(items.elem[1]))))
    elif isinstance(items.elem, tuple) and items.elem[0] == 'coded':
        P.assume(z3.And(t >= 0, t < 256 ** items.elem[1].width))
    P.inputs[name] = SInt(t)
    return I.seq_elem(SSeq(1, lambda i, t=t: t, 'list', items.elem), z3.IntVal(0)), t


def inv_goals(P, v, param, w, tag):
    items = v.f['_items']
    size = ops.as_int(v.f['_items_size'])
    P.oblige('%s: INV size == len * item size' % tag, size == ops.as_seq(items).n * w)
    P.oblige('%s: INV min <= size <= max' % tag, z3.And(size >= param.min_byte_num, size <= param.max_byte_num))


def unchanged(P, v, items0, n0w, tag):
    vc.oblige_equal(P, '%s: a refused edit leaves the items unchanged' % tag, v.f['_items'], items0)
    P.oblige('%s: a refused edit leaves the size unchanged' % tag, ops.as_int(v.f['_items_size']) == n0w)


def clamp_insert(i, n):
    return z3.If(i < 0, z3.If(i + n < 0, z3.IntVal(0), i + n), z3.If(i > n, n, i))


def op_unit(vcls, param, w, op):
    def thunk():
        P = E.cur()
        v, items0 = sym_vector(P, vcls, param, w)
        n0 = items0.n
        tag = '%s.%s' % (vcls.__name__, op)
        allowed = (NotEnoughData, TooMuchData, IndexError)
        if op in ('insert', 'append'):
            x, xt = sym_item(P, items0)
            if op == 'insert':
                i = z3.Int('index')
                P.inputs['index'] = SInt(i)
                out = vc.outcome_of(lambda: I.call(I.getattr_(v, 'insert'), [SInt(i), x], {}))
                pos = clamp_insert(i, n0)
            else:
                out = vc.outcome_of(lambda: I.call(I.getattr_(v, 'append'), [x], {}))
                pos = n0
            want = V.concat(V.concat(V.slice_seq(items0, 0, pos), SSeq(1, lambda j: xt, 'list', items0.elem), 'list'),
                            V.slice_seq(items0, pos, None), 'list')
        elif op == 'delitem':
            i = z3.Int('index')
            P.inputs['index'] = SInt(i)
            out = vc.outcome_of(lambda: I.call(I.getattr_(v, '__delitem__'), [SInt(i)], {}))
            pos = z3.If(i < 0, i + n0, i)
            want = V.concat(V.slice_seq(items0, 0, pos), V.slice_seq(items0, pos + 1, None), 'list')
        elif op == 'pop':
            i = z3.Int('index')
            P.inputs['index'] = SInt(i)
            out = vc.outcome_of(lambda: I.call(I.getattr_(v, 'pop'), [SInt(i)], {}))
            pos = z3.If(i < 0, i + n0, i)
            want = V.concat(V.slice_seq(items0, 0, pos), V.slice_seq(items0, pos + 1, None), 'list')
        elif op == 'setitem':
            i = z3.Int('index')
            P.inputs['index'] = SInt(i)
            x, xt = sym_item(P, items0)
            out = vc.outcome_of(lambda: I.call(I.getattr_(v, '__setitem__'), [SInt(i), x], {}))
            pos = z3.If(i < 0, i + n0, i)
            want = SSeq(n0, lambda j, at=items0._at: z3.If(V.iv(j) == pos, xt, at(j)), 'list', items0.elem)
        elif op == 'delslice':
            lo, hi = z3.Int('lo'), z3.Int('hi')
            P.inputs.update(lo=SInt(lo), hi=SInt(hi))
            out = vc.outcome_of(lambda: I.call(I.getattr_(v, '__delitem__'), [slice(SInt(lo), SInt(hi))], {}))
            a = V.clamp_index(lo, n0)
            b = V.clamp_index(hi, n0)
            b = z3.If(b < a, a, b)
            want = V.concat(V.slice_seq(items0, 0, a), V.slice_seq(items0, b, None), 'list')
        elif op == 'setslice':
            lo, hi = z3.Int('lo'), z3.Int('hi')
            P.inputs.update(lo=SInt(lo), hi=SInt(hi))
            x, xt = sym_item(P, items0)
            y, yt = sym_item(P, items0, 'y')
            out = vc.outcome_of(lambda: I.call(I.getattr_(v, '__setitem__'), [slice(SInt(lo), SInt(hi)), [x, y]], {}))
            a = V.clamp_index(lo, n0)
            b = V.clamp_index(hi, n0)
            b = z3.If(b < a, a, b)
            mid = V.seq_of_terms([xt, yt], 'list')
            mid.elem = items0.elem
            want = V.concat(V.concat(V.slice_seq(items0, 0, a), mid, 'list'), V.slice_seq(items0, b, None), 'list')
        elif op == 'setslice_ext':
            lo, hi = z3.Int('lo'), z3.Int('hi')
            P.inputs.update(lo=SInt(lo), hi=SInt(hi))
            x, xt = sym_item(P, items0)
            out = vc.outcome_of(lambda: I.call(I.getattr_(v, '__setitem__'), [slice(SInt(lo), SInt(hi), 2), [x]], {}))
            a = V.clamp_index(lo, n0)
            b = V.clamp_index(hi, n0)
            want = SSeq(n0, lambda j, at=items0._at: z3.If(V.iv(j) == a, xt, at(j)), 'list', items0.elem)
            allowed = allowed + (ValueError,)      # the plain list's own error for a size mismatch; nothing may change
        elif op in ('extend', 'iadd'):
            x, xt = sym_item(P, items0)
            y, yt = sym_item(P, items0, 'y')
            name = 'extend' if op == 'extend' else '__iadd__'
            out = vc.outcome_of(lambda: I.call(I.getattr_(v, name), [[x, y]], {}))
            mid = V.seq_of_terms([xt, yt], 'list')
            want = V.concat(items0, mid, 'list')
        elif op == 'clear':
            out = vc.outcome_of(lambda: I.call(I.getattr_(v, 'clear'), [], {}))
            want = V.conc_seq([], 'list')
        elif op == 'reverse':
            out = vc.outcome_of(lambda: I.call(I.getattr_(v, 'reverse'), [], {}))
            want = SSeq(n0, lambda j, at=items0._at: at(n0 - 1 - V.iv(j)), 'list', items0.elem)
        else:
            raise E.Unsupported(op)
        if out.kind == 'ret':
            inv_goals(P, v, param, w, tag)
            vc.oblige_equal(P, '%s: items are what a plain list would hold' % tag, ops.as_seq(v.f['_items']), want)
        else:
            e1.record_path_fact(P, '%s: a refused edit raises a data-length error or the list IndexError (got %s)'
                                % (tag, out.value.cls.__name__), issubclass(out.value.cls, allowed))
            unchanged(P, v, items0, n0 * w, tag)
    return lambda: (e1.setup(), vc.run_unit(op, thunk))[1]


def native_vector(vcls, items_desc):
    from checks import rebuild
    items = items_desc.get('items') if isinstance(items_desc, dict) else None
    if items is None:
        return None
    param = vcls.get_param()
    ncls = getattr(param, 'numeric_class', int)
    if isinstance(ncls, type) and issubclass(ncls, enum.Enum):
        ms = list(ncls)
        items = [ms[i] for i in items if 0 <= i < len(ms)]
    else:
        items = rebuild.coded_items(vcls, items)
    return vcls(items)


def replay_for(vcls, op):
    def replay(inputs):
        return search(0)

    def search(seed, hints=()):
        """model list semantics natively on small vectors around both bounds"""
        import random
        rnd = random.Random(seed)
        param = vcls.get_param()
        w = CB.fixed_item_size(param)
        try:
            base = gen_items(vcls, param, rnd)
        except Exception as ex:
            return dict(reproduced=False, error=repr(ex))
        top = param.max_byte_num // w
        lens = sorted({max(param.min_byte_num // w, 0), min(top, 6), 0, 1, 2, 3, 5} | ({top, top - 1, top - 2} if top <= 300 else set()))
        for n in lens:
            if not (param.min_byte_num <= n * w <= param.max_byte_num):
                continue
            for trial in range(12):
                items = [base() for _ in range(n)]
                try:
                    v = vcls(list(items))
                except Exception:
                    continue
                model = list(items)
                x, y = base(), base()
                i, lo, hi = rnd.randrange(-n - 2, n + 3), rnd.randrange(-n - 1, n + 2), rnd.randrange(-n - 1, n + 2)
                ops_ = {
                    'insert': (lambda: v.insert(i, x), lambda: model.insert(i, x)),
                    'append': (lambda: v.append(x), lambda: model.append(x)),
                    'delitem': (lambda: v.__delitem__(i), lambda: model.__delitem__(i)),
                    'pop': (lambda: v.pop(i), lambda: model.pop(i)),
                    'setitem': (lambda: v.__setitem__(i, x), lambda: model.__setitem__(i, x)),
                    'delslice': (lambda: v.__delitem__(slice(lo, hi)), lambda: model.__delitem__(slice(lo, hi))),
                    'setslice': (lambda: v.__setitem__(slice(lo, hi), [x, y]), lambda: model.__setitem__(slice(lo, hi), [x, y])),
                    'extend': (lambda: v.extend([x, y]), lambda: model.extend([x, y])),
                    'iadd': (lambda: v.__iadd__([x, y]), lambda: model.__iadd__([x, y])),
                    'setslice_ext': (lambda: v.__setitem__(slice(lo, hi, 2), [x]), lambda: model.__setitem__(slice(lo, hi, 2), [x])),
                    'clear': (lambda: v.clear(), lambda: model.clear()),
                    'reverse': (lambda: v.reverse(), lambda: model.reverse()),
                }
                real, ref = ops_[op]
                before = list(v)
                call = '%s(%r).%s [i=%d lo=%d hi=%d x=%r y=%r]' % (vcls.__name__, items, op, i, lo, hi, x, y)
                try:
                    real()
                except (NotEnoughData, TooMuchData, IndexError, ValueError):
                    if list(v) != before or v._items_size != len(before) * w:
                        return dict(reproduced=True, call=call[:300], expected='a refused edit changes nothing', key='refused edit changed state',
                                    observed='items %r size %d' % (list(v), v._items_size))
                    continue
                except Exception as ex:
                    return dict(reproduced=True, call=call[:300], expected='data-length error or IndexError', observed=repr(ex)[:100],
                                key='unexpected exception')
                try:
                    ref()
                except Exception:
                    pass
                size_ok = v._items_size == len(list(v)) * w and param.min_byte_num <= v._items_size <= param.max_byte_num
                if list(v) != model or not size_ok:
                    return dict(reproduced=True, call=call[:300], expected='items %r, size %d within [%d, %d]' % (
                        model, len(model) * w, param.min_byte_num, param.max_byte_num), key='invariant broken',
                        observed='items %r, _items_size %d' % (list(v), v._items_size))
        return dict(reproduced=False)
    return replay, search


def gen_items(vcls, param, rnd):
    ncls = getattr(param, 'numeric_class', None)
    if isinstance(ncls, type) and issubclass(ncls, enum.Enum):
        ms = list(ncls)
        return lambda: rnd.choice(ms)
    ic = getattr(param, 'item_class', None)
    if ic is not None:
        from contracts.common_parse import coded_kind
        from cryptoparser.common.utils import get_leaf_classes
        for classes in ([ic], get_leaf_classes(ic)):
            sp = coded_kind(list(classes), getattr(param, 'fallback_class', None))
            if sp is not None:
                ms = sp.members
                if sp.wrap_known is not None:
                    return lambda: sp.wrap_known(rnd.choice(ms))
                return lambda: rnd.choice(ms)
    size = getattr(param, 'item_size', 1)
    return lambda: rnd.randrange(256 ** size)


def compose_unit(vcls, param, w):
    def thunk():
        P = E.cur()
        v, items0 = sym_vector(P, vcls, param, w)
        out = vc.outcome_of(lambda: I.call(I.getattr_(v, 'compose'), [], {}))
        lw = param.item_num_size
        if out.kind == 'raise':
            # a value of the item domain that does not fit its width (numeric vectors accept any int in the constructor)
            e1.record_path_fact(P, 'compose refuses only with the library errors', issubclass(out.value.cls, e1.FOUR))
            return
        wire = ops.as_seq(out.value)
        P.oblige('%s.compose: the length prefix fits its width' % vcls.__name__, items0.n * w < 256 ** lw)
        P.oblige('%s.compose: prefix value == number of body bytes that follow' % vcls.__name__,
                 S.dec(wire.at, 0, lw, '!') == wire.n - lw)
        P.oblige('%s.compose: body size == _items_size' % vcls.__name__, wire.n - lw == ops.as_int(v.f['_items_size']))
    return lambda: (e1.setup(), vc.run_unit('compose', thunk))[1]


OPS = ('insert', 'append', 'delitem', 'pop', 'setitem', 'delslice', 'setslice', 'setslice_ext', 'extend', 'iadd', 'clear', 'reverse')


def _units_body(tier, seed):
    out = []
    vs = fixed_vectors()
    special = ('TlsHandshakeHelloRandomBytes',)
    for vcls, param, w in vs:
        if vcls.__name__ in special:
            continue
        for op in OPS:
            replay, search = replay_for(vcls, op)
            out.append(Unit('%s/%s' % (vcls.__name__, op), op_unit(vcls, param, w, op), replay=replay, search=search,
                            clause='C12 ' + op, functions=['ArrayBase.%s' % op, 'ArrayBase._update_items_size']))
        out.append(Unit('%s/compose' % vcls.__name__, compose_unit(vcls, param, w), clause='C12 compose prefix',
                        functions=['%s.compose' % vcls.__name__]))
    variable = [c for c in census.concrete_parsables() if issubclass(c, RB.ArrayBase) and c not in [v[0] for v in vs]]
    UNCOVERED[:] = ['variable-size item kinds (size is a sum over items; not under contract): ' +
                    ', '.join(sorted(c.__name__ for c in variable)),
                    'MutableSequence.remove (= del self[self.index(value)], a search loop plus __delitem__) is not under contract']
    from checks import foundation
    return list(out) + foundation.units(tier, seed)



def units(tier, seed):
    from checks import canary
    return list(_units_body(tier, seed)) + [canary.vector_append_noop()]


FINDING_REPLAYS = {}
