# C17 -- TLS protocol versions form a strict total order consistent with equality
#
# The real TlsProtocolVersion.__lt__ / __eq__ and the functools.total_ordering derivations (interpreted from the
# stdlib source) are run on symbolic members a, b, c ranging over the *whole* installed TlsVersion table.
import functools
import itertools

import z3

from cryptodatahub.tls.version import TlsVersion
from cryptoparser.tls.version import TlsProtocolVersion

from pyvc import values as V, engine as E, interp as I, ops, vc, models  # noqa: F401
from pyvc.runner import Unit
from pyvc.values import SEnum, SObj
from checks import common

TRUSTED_BASE = common.TRUSTED_BASE
ASSUMPTIONS = common.ASSUMPTIONS + [
    'the TlsVersion table is read as installed (cryptodatahub); the proof is symbolic over its members, whatever their number',
    'attrs hash=True hashes the tuple of fields (version,), i.e. is a function of the enum member',
]
UNCOVERED = []
BOUNDED = []

for _n in ('_gt_from_lt', '_le_from_lt', '_ge_from_lt', '_ge_from_le', '_lt_from_le', '_gt_from_le', '_lt_from_gt',
           '_ge_from_gt', '_le_from_gt', '_le_from_ge', '_gt_from_ge', '_lt_from_ge'):
    I.INTERPRET_EXTRA.add(getattr(functools, _n))

MEMBERS = list(TlsVersion)


def sym_version(P, name):
    idx = z3.Int(name)
    P.assume(z3.And(idx >= 0, idx < len(MEMBERS)))
    m = SEnum(TlsVersion, idx)
    P.inputs[name] = m
    return SObj(TlsProtocolVersion, dict(version=m)), idx


def code(idx):
    return V.enum_table(TlsVersion, idx, lambda m: m.value.code)


def rel(op, x, y):
    """outcome of the real comparison as a z3 Bool (the comparison itself may branch)"""
    import ast
    r = ops.compare(op, x, y)
    return ops.bool_expr(r) if not isinstance(r, bool) else z3.BoolVal(r)


def unit_trichotomy():
    import ast

    def thunk():
        P = E.cur()
        a, ia = sym_version(P, 'a')
        b, ib = sym_version(P, 'b')
        lt, eq, gt = rel(ast.Lt, a, b), rel(ast.Eq, a, b), rel(ast.Lt, b, a)
        P.oblige('exactly one of a<b, a==b, b<a', z3.PbEq([(lt, 1), (eq, 1), (gt, 1)], 1))
        P.oblige('a==b iff same code', eq == (code(ia) == code(ib)))
        P.oblige('equal versions hash equally (same member)', z3.Implies(eq, ia == ib))
        ne = rel(ast.NotEq, a, b)
        P.oblige('!= is the negation of ==', ne == z3.Not(eq))
    return lambda: vc.run_unit('trichotomy', thunk)


def unit_derived():
    import ast

    def thunk():
        P = E.cur()
        a, ia = sym_version(P, 'a')
        b, ib = sym_version(P, 'b')
        lt, eq = rel(ast.Lt, a, b), rel(ast.Eq, a, b)
        le, gt, ge = rel(ast.LtE, a, b), rel(ast.Gt, a, b), rel(ast.GtE, a, b)
        P.oblige('a<=b iff a<b or a==b', le == z3.Or(lt, eq))
        P.oblige('a>b iff not a<=b', gt == z3.Not(z3.Or(lt, eq)))
        P.oblige('a>=b iff not a<b', ge == z3.Not(lt))
    return lambda: vc.run_unit('derived', thunk)


def unit_transitivity():
    import ast

    def thunk():
        P = E.cur()
        a, ia = sym_version(P, 'a')
        b, ib = sym_version(P, 'b')
        c, ic = sym_version(P, 'c')
        ab, bc, ac = rel(ast.Lt, a, b), rel(ast.Lt, b, c), rel(ast.Lt, a, c)
        P.oblige('a<b and b<c implies a<c', z3.Implies(z3.And(ab, bc), ac))
    return lambda: vc.run_unit('transitivity', thunk)


def unit_stated_order():
    """SSL2 < SSL3 < TLS1.0 < 1.1 < 1.2 < every experimental and draft version < TLS1.3; drafts by draft number"""
    import ast

    def thunk():
        P = E.cur()
        a, ia = sym_version(P, 'a')
        b, ib = sym_version(P, 'b')
        lt = rel(ast.Lt, a, b)
        ca, cb = code(ia), code(ib)
        maj = lambda c: c / 256
        pre = lambda c: z3.Or(maj(c) == 0x7f, maj(c) == 0x7e)       # draft or experiment
        final = lambda c: z3.Not(pre(c))
        t13 = TlsVersion.TLS1_3.value.code
        P.oblige('released versions are ordered by their code', z3.Implies(z3.And(final(ca), final(cb)), lt == (ca < cb)))
        P.oblige('every released version up to TLS 1.2 is below every draft/experiment',
                 z3.Implies(z3.And(final(ca), ca != t13, pre(cb)), lt))
        P.oblige('no draft/experiment is below a released version other than TLS 1.3',
                 z3.Implies(z3.And(pre(ca), final(cb), cb != t13), z3.Not(lt)))
        P.oblige('every draft/experiment is below TLS 1.3', z3.Implies(z3.And(pre(ca), cb == t13), lt))
        P.oblige('TLS 1.3 is below no draft/experiment', z3.Implies(z3.And(ca == t13, pre(cb)), z3.Not(lt)))
        P.oblige('drafts are ordered by draft number',
                 z3.Implies(z3.And(maj(ca) == 0x7f, maj(cb) == 0x7f), lt == (ca % 256 < cb % 256)))
    return lambda: vc.run_unit('stated order', thunk)


def unit_canary():
    import ast

    def thunk():
        P = E.cur()
        a, ia = sym_version(P, 'a')
        b, ib = sym_version(P, 'b')
        P.oblige('canary: a<b for all a, b (must fail)', rel(ast.Lt, a, b))
    return lambda: vc.run_unit('canary', thunk)


def _member(x):
    if isinstance(x, dict) and 'member' in x:
        return TlsProtocolVersion(TlsVersion[x['member']])
    return None


def native_violation(vs):
    """first failing pair/triple among the given versions (all of them by default)"""
    for a, b in itertools.product(vs, repeat=2):
        n = sum([a < b, a == b, b < a])
        if n != 1:
            return dict(reproduced=True, call='%s vs %s' % (a, b), expected='exactly one of <, ==, >',
                        observed=dict(lt=a < b, eq=a == b, gt=b < a))
        if (a <= b) != (a < b or a == b) or (a > b) != (not a <= b) or (a >= b) != (not a < b):
            return dict(reproduced=True, call='%s vs %s' % (a, b), expected='<=, >, >= consistent with < and ==', observed='inconsistent')
        if a == b and hash(a) != hash(b):
            return dict(reproduced=True, call='hash(%s), hash(%s)' % (a, b), expected='equal hashes', observed='different')
    for a, b, c in itertools.product(vs, repeat=3):
        if a < b and b < c and not a < c:
            return dict(reproduced=True, call='%s < %s < %s' % (a, b, c), expected='a < c', observed='not a < c',
                        key='intransitive')
    order = [TlsVersion.SSL2, TlsVersion.SSL3, TlsVersion.TLS1, TlsVersion.TLS1_1, TlsVersion.TLS1_2]
    pv = TlsProtocolVersion
    for x, y in zip(order, order[1:]):
        if not pv(x) < pv(y):
            return dict(reproduced=True, call='%s < %s' % (x, y), expected=True, observed=False)
    for m in TlsVersion:
        v = pv(m)
        if (m.value.code >> 8) in (0x7f, 0x7e):          # classified by the code itself, not by the code under test
            if not (pv(TlsVersion.TLS1_2) < v and v < pv(TlsVersion.TLS1_3)):
                return dict(reproduced=True, call='TLS1_2 < %s < TLS1_3' % m.name, expected=True, observed=False)
    drafts = [pv(m) for m in TlsVersion if (m.value.code >> 8) == 0x7f]
    for x, y in itertools.product(drafts, repeat=2):
        if (x < y) != ((x.version.value.code & 0xff) < (y.version.value.code & 0xff)):
            return dict(reproduced=True, call='%s < %s' % (x, y), expected=x.minor < y.minor, observed=x < y)
    return dict(reproduced=False)


def replay(inputs):
    vs = [v for v in (_member(inputs.get(k)) for k in ('a', 'b', 'c')) if v is not None]
    if not vs:
        return dict(reproduced=False)
    return native_violation(vs)


def search(seed):
    return native_violation([TlsProtocolVersion(m) for m in TlsVersion])


def units(tier, seed):
    common.setup()
    fns = ['TlsProtocolVersion.__lt__', 'TlsProtocolVersion.__eq__', 'functools.total_ordering derivations']
    mk = lambda name, run, **kw: Unit(name, run, replay=replay, search=search, functions=fns, clause='C17', **kw)
    return [
        mk('trichotomy+hash', unit_trichotomy()),
        mk('derived-comparisons', unit_derived()),
        mk('transitivity', unit_transitivity()),
        mk('stated-order', unit_stated_order()),
        Unit('canary/a<b for all pairs', unit_canary(), expect_fail=True),
    ]


FINDING_REPLAYS = {}
