# C16 -- HASSH and SSH host-key fingerprints equal their definitions over wire bytes
#
# The digest functions (MD5, SHA-1, SHA-256), base64, hexlify and textwrap are dependencies with ASSUMED contracts: each is
# an uninterpreted function of its argument (contracts/digests.py). What is decided here, for all inputs, is the part the
# repository code is responsible for: WHICH function is applied to WHICH bytes / text, in which order, with which
# separators and prefix. The real _hassh / hassh / hassh_server / _fingerprint / fingerprints bodies are run on symbolic
# inputs and their result -- a tree of abstract applications over structured text -- must be the tree the definition gives:
#   hassh        = hex_lower(md5(ascii(";".join(",".join(names(v)) for v in [kex, enc c2s, mac c2s, comp c2s]))))
#   hassh_server = the same over [kex, enc s2c, mac s2c, comp s2c]
#   names(v)     = the names in wire order; a known algorithm by its wire name, an unknown one by the text that was received
#   fingerprint  = "SHA256:" + b64(sha256(blob)), "SHA1:" + b64(sha1(blob)), "MD5:" + ":".join(wrap(hexlify(md5(blob)), 2))
#   known_hosts  = b64(blob);  blob = key_bytes (the RFC 4253 public key blob: layout is C07 territory)
import z3

from pyvc import values as V, engine as E, interp as I, ops, vc
from pyvc.runner import Unit
from pyvc.values import SObj, SStr, SText, SAbs, SSeq
from checks import common, e1

TRUSTED_BASE = common.TRUSTED_BASE
ASSUMPTIONS = common.ASSUMPTIONS + [
    'hashlib.md5, cryptodatahub hash_bytes, bytes_to_hex_string, binascii.hexlify, base64.b64encode and textwrap.wrap are uninterpreted functions of their arguments (contracts/digests.py): the proofs decide which function is applied to which bytes or text, not the digests themselves',
    'HASSH definition (salesforce/hassh) and the OpenSSH fingerprint renderings transcribed from memory',
    'the public key blob is key_bytes (= compose() of the host key / certificate); that compose() is the RFC 4253 blob is C07 territory and not decided here',
    'known algorithms are represented by two members of each algorithm enumeration, unknown ones by arbitrary symbolic text; the code does not branch on which member an item is (only on str vs member)',
]
UNCOVERED = ['the layout of the public key blob itself (C07)', 'host_key_asdict beyond the known_hosts entry (JSON/Markdown rendering: C14)']
BOUNDED = ['name-lists with at most 2 names (patterns: empty, known, unknown, known+unknown, unknown+known)']

PATTERNS = {'kex': ['', 'k', 'u', 'ku', 'uk'], 'other': ['k', 'u', 'ku']}


def sym_names(P, vcls, tag, pattern):
    """a name-list vector object holding known members (concrete representatives) and unknown names (symbolic text)"""
    ecls = vcls.get_param().item_class if hasattr(vcls.get_param(), 'item_class') else None
    members = list(ecls) if ecls is not None and isinstance(ecls, type) else []
    items, view = [], []
    for k, ch in enumerate(pattern):
        if ch == 'k' and members:
            m = members[0] if k == 0 else members[-1]
            items.append(m)
            view.append(('lit', m.value.code))
        else:
            seq, facts = V.base_seq('%s_name%d' % (tag, k), 'bytes')
            for f in facts:
                P.assume(f)
            j = z3.Int('j!q')
            P.assume(z3.ForAll([j], z3.Implies(z3.And(j >= 0, j < seq.n), seq.at(j) < 128)))
            s = SStr(seq, 'ascii')
            P.inputs['%s_name%d' % (tag, k)] = s
            items.append(s)
            view.append(('text', s))
    v = SObj(vcls, dict(_items=items, _items_size=0, param=vcls.get_param()))
    return v, view


def joined(views, inner=',', outer=';'):
    parts = []
    for k, view in enumerate(views):
        if k:
            parts.append(('lit', outer))
        for j, a in enumerate(view):
            if j:
                parts.append(('lit', inner))
            parts.append(a)
    return SText(parts)


# ------------------------------------------------------------------------------------------- abstract tree comparison
def tree_equal(P, name, got, want, path='result'):
    """structural equality of two abstract-application trees; leaves: structured text, byte sequences, python values"""
    if isinstance(want, SAbs):
        if not isinstance(got, SAbs) or got.kind != want.kind:
            e1.record_path_fact(P, '%s: %s is %s(...) (got %s)' % (name, path, want.kind, getattr(got, 'kind', type(got).__name__)), False)
            return
        for k, v in want.attrs.items():
            if k not in got.attrs:
                e1.record_path_fact(P, '%s: %s.%s present' % (name, path, k), False)
                return
            tree_equal(P, name, got.attrs[k], v, '%s.%s' % (path, k))
        return
    if isinstance(want, SText) or isinstance(got, SText):
        g = (got if isinstance(got, SText) else SText([('lit', got)] if isinstance(got, str) else [('abs', got)])).normal()
        w = (want if isinstance(want, SText) else SText([('lit', want)] if isinstance(want, str) else [('abs', want)])).normal()
        if len(g) != len(w) or any(a[0] != b[0] for a, b in zip(g, w)):
            render = lambda ps: ''.join(v if k == 'lit' else '<%s>' % k for k, v in ps)
            e1.record_path_fact(P, '%s: %s has the pieces %s (got %s)' % (name, path, render(w)[:100], render(g)[:100]), False)
            return
        for k, (a, b) in enumerate(zip(g, w)):
            if a[0] == 'lit':
                e1.record_path_fact(P, '%s: %s piece %d is %r (got %r)' % (name, path, k, b[1], a[1]), a[1] == b[1])
            elif a[0] == 'text':
                if a[1] is not b[1]:
                    vc.oblige_equal(P, '%s: %s piece %d is the received name' % (name, path, k), a[1].seq.copy('bytes'), b[1].seq.copy('bytes'))
                else:
                    e1.record_path_fact(P, '%s: %s piece %d is the received name' % (name, path, k), True)
            elif a[0] == 'abs':
                ga, wa = a[1], b[1]
                if isinstance(wa, tuple):
                    ok = isinstance(ga, tuple) and ga[:2] == wa[:2]
                    e1.record_path_fact(P, '%s: %s piece %d is %s' % (name, path, k, wa[:2]), ok)
                    if ok:
                        tree_equal(P, name, ga[2], wa[2], '%s[%d]' % (path, k))
                else:
                    tree_equal(P, name, ga, wa, '%s[%d]' % (path, k))
        return
    if isinstance(want, SSeq) or isinstance(got, SSeq):
        if not isinstance(got, (SSeq, bytes, bytearray)):
            e1.record_path_fact(P, '%s: %s is a byte string (got %s)' % (name, path, type(got).__name__), False)
            return
        vc.oblige_equal(P, '%s: %s is applied to the key blob' % (name, path), ops.as_seq(got).copy('bytes'), ops.as_seq(want).copy('bytes'))
        return
    e1.record_path_fact(P, '%s: %s == %r (got %r)' % (name, path, want, got), got == want)


def A(kind, **attrs):
    return SAbs(kind, z3.IntVal(0), None, attrs)


# ------------------------------------------------------------------------------------------------------ HASSH
def hassh_unit(which, pattern):
    def thunk():
        from cryptoparser.ssh import subprotocol as SP
        from contracts import digests
        digests.register()
        P = E.cur()
        cls = SP.SshKeyExchangeInit
        fields, views = {}, {}
        spec = [('kex_algorithms', SP.SshKexAlgorithmVector, 'kex'), ('host_key_algorithms', SP.SshHostKeyAlgorithmVector, 'other'),
                ('encryption_algorithms_client_to_server', SP.SshEncryptionAlgorithmVector, 'other'),
                ('encryption_algorithms_server_to_client', SP.SshEncryptionAlgorithmVector, 'other'),
                ('mac_algorithms_client_to_server', SP.SshMacAlgorithmVector, 'other'),
                ('mac_algorithms_server_to_client', SP.SshMacAlgorithmVector, 'other'),
                ('compression_algorithms_client_to_server', SP.SshCompressionAlgorithmVector, 'other'),
                ('compression_algorithms_server_to_client', SP.SshCompressionAlgorithmVector, 'other')]
        for k, (fname, vcls, kind) in enumerate(spec):
            pat = pattern[k]
            fields[fname], views[fname] = sym_names(P, vcls, fname, pat)
        o = SObj(cls, dict(fields, languages_client_to_server=SObj(SP.SshLanguageVector, dict(_items=[], _items_size=0)),
                           languages_server_to_client=SObj(SP.SshLanguageVector, dict(_items=[], _items_size=0)),
                           first_kex_packet_follows=0, cookie=bytes(16), reserved=0))
        P.inputs['pattern'] = list(pattern)
        out = vc.outcome_of(lambda: I.getattr_(o, which))
        if out.kind != 'ret':
            e1.record_path_fact(P, '%s returns a value (raised %s)' % (which, out.value.cls.__name__), False)
            return
        got = out.value
        side = 'client_to_server' if which == 'hassh' else 'server_to_client'
        text = joined([views['kex_algorithms'], views['encryption_algorithms_' + side], views['mac_algorithms_' + side],
                       views['compression_algorithms_' + side]])
        want = A('hex', of=A('digest', hash='md5', of=text), lowercase=True, separator='')
        tree_equal(P, which, got, want)
        again = I.getattr_(o, which)
        tree_equal(P, which + ' (second call)', again, want)
    return lambda: (e1.setup(), vc.run_unit(which, thunk, max_paths=2000))[1]


def hassh_native(seed=0, hints=()):
    import hashlib
    import random
    from cryptoparser.ssh import subprotocol as SP
    rnd = random.Random(seed)

    def names(vcls, n):
        ms = list(vcls.get_param().item_class)
        out = []
        for _ in range(n):
            out.append(rnd.choice(ms) if rnd.random() < 0.6 else 'unknown-%d@example.com' % rnd.randrange(1000))
        return out
    for _ in range(40):
        kw = dict(kex_algorithms=names(SP.SshKexAlgorithmVector, rnd.randrange(1, 4)),
                  host_key_algorithms=names(SP.SshHostKeyAlgorithmVector, 2),
                  encryption_algorithms_client_to_server=names(SP.SshEncryptionAlgorithmVector, rnd.randrange(1, 4)),
                  encryption_algorithms_server_to_client=names(SP.SshEncryptionAlgorithmVector, rnd.randrange(1, 4)),
                  mac_algorithms_client_to_server=names(SP.SshMacAlgorithmVector, rnd.randrange(1, 3)),
                  mac_algorithms_server_to_client=names(SP.SshMacAlgorithmVector, rnd.randrange(1, 3)),
                  compression_algorithms_client_to_server=names(SP.SshCompressionAlgorithmVector, rnd.randrange(1, 3)),
                  compression_algorithms_server_to_client=names(SP.SshCompressionAlgorithmVector, rnd.randrange(1, 3)))
        try:
            o = SP.SshKeyExchangeInit(**kw)
            o = SP.SshKeyExchangeInit.parse_exact_size(bytes(o.compose()))
        except Exception:
            continue
        nm = lambda v: ','.join(x if isinstance(x, str) else x.value.code for x in v)
        for which, side in (('hassh', 'client_to_server'), ('hassh_server', 'server_to_client')):
            text = ';'.join([nm(kw['kex_algorithms']), nm(kw['encryption_algorithms_' + side]), nm(kw['mac_algorithms_' + side]),
                             nm(kw['compression_algorithms_' + side])])
            want = hashlib.md5(text.encode('ascii')).hexdigest()
            got = getattr(o, which)
            if got != want:
                return dict(reproduced=True, call='SshKeyExchangeInit(...).%s with name-lists %s' % (which, text), expected=want, observed=got, key=which)
    return dict(reproduced=False)


# ------------------------------------------------------------------------------------------------- fingerprints
def fingerprint_unit():
    def thunk():
        from cryptodatahub.common.algorithm import Hash
        from cryptoparser.ssh.key import SshPublicKeyBase, SshHostKeyEDDSA
        from contracts import digests
        digests.register()
        P = E.cur()
        blob, facts = V.base_seq('key_blob')
        for f in facts:
            P.assume(f)
        P.inputs['key_blob'] = blob
        o = SObj(SshHostKeyEDDSA, dict(host_key_algorithm=None, public_key=None))
        I.CONTRACTS[SshHostKeyEDDSA.key_bytes.fget] = lambda self: blob.copy('bytearray')
        try:
            out = vc.outcome_of(lambda: I.getattr_(o, 'fingerprints'))
        finally:
            I.CONTRACTS.pop(SshHostKeyEDDSA.key_bytes.fget, None)
        if out.kind != 'ret':
            e1.record_path_fact(P, 'fingerprints returns a value (raised %s)' % out.value.cls.__name__, False)
            return
        got = out.value
        items = list(got.items()) if isinstance(got, dict) else None
        e1.record_path_fact(P, 'fingerprints: an ordered mapping SHA2_256, SHA1, MD5', items is not None and
                            [k for k, _ in items] == [Hash.SHA2_256, Hash.SHA1, Hash.MD5])
        if items is None:
            return
        want = {
            Hash.SHA2_256: SText([('lit', 'SHA256'), ('lit', ':'), ('abs', A('b64', of=A('digest', hash='SHA2_256', of=blob)))]),
            Hash.SHA1: SText([('lit', 'SHA1'), ('lit', ':'), ('abs', A('b64', of=A('digest', hash='SHA1', of=blob)))]),
            Hash.MD5: SText([('lit', 'MD5'), ('lit', ':'),
                             ('abs', ('join', ':', A('wrap', of=A('hexlify', of=A('digest', hash='MD5', of=blob)), width=2)))]),
        }
        for k, v in items:
            if k in want:
                tree_equal(P, 'fingerprint %s' % k.name, v, want[k])
    return lambda: (e1.setup(), vc.run_unit('fingerprints', thunk, max_paths=500))[1]


def fingerprint_native(seed=0, hints=()):
    import base64
    import hashlib
    from cryptodatahub.common.algorithm import Hash
    from cryptoparser.ssh.key import SshHostKeyEDDSA, SshHostPublicKeyVariant
    blob = bytes.fromhex('0000000b7373682d6564323535313900000020') + bytes(range(32))
    try:
        k = SshHostPublicKeyVariant.parse_exact_size(blob)
    except Exception as ex:
        return dict(reproduced=False, error=repr(ex))
    want = {Hash.SHA2_256: 'SHA256:' + base64.b64encode(hashlib.sha256(blob).digest()).decode(),
            Hash.SHA1: 'SHA1:' + base64.b64encode(hashlib.sha1(blob).digest()).decode(),
            Hash.MD5: 'MD5:' + ':'.join('%02x' % b for b in hashlib.md5(blob).digest())}
    got = k.fingerprints
    if dict(got) != want or list(got) != [Hash.SHA2_256, Hash.SHA1, Hash.MD5]:
        return dict(reproduced=True, call='SshHostPublicKeyVariant.parse_exact_size(<ed25519 blob>).fingerprints', expected=str(want), observed=str(dict(got)),
                    key='fingerprints')
    kh = k.host_key_asdict()['known_hosts']
    if kh != base64.b64encode(blob).decode():
        return dict(reproduced=True, call='host_key_asdict()["known_hosts"]', expected=base64.b64encode(blob).decode(), observed=kh, key='known_hosts')
    return dict(reproduced=False)


def _units_body(tier, seed):
    out = []
    pats = []
    for kexp in PATTERNS['kex']:
        pats.append((kexp, 'k', 'k', 'u', 'ku', 'u', 'u', 'k'))
    pats += [('ku', 'u', 'ku', 'k', 'u', 'ku', 'k', 'ku'), ('k', 'k', 'u', 'ku', 'k', 'u', 'ku', 'u')]
    for which in ('hassh', 'hassh_server'):
        for p in pats:
            out.append(Unit('%s/%s' % (which, '-'.join(x or '0' for x in p)), hassh_unit(which, p), replay=lambda inputs: hassh_native(0),
                            search=hassh_native, clause='HASSH', functions=['SshKeyExchangeInit._hassh', 'SshKeyExchangeInit.%s' % which]))
    out.append(Unit('fingerprints/SHA256-SHA1-MD5', fingerprint_unit(), replay=lambda inputs: fingerprint_native(0), search=fingerprint_native,
                    clause='fingerprints', functions=['SshPublicKeyBase._fingerprint', 'SshPublicKeyBase.fingerprints']))
    return out



def units(tier, seed):
    from checks import canary
    return list(_units_body(tier, seed)) + [canary.hassh_wrong_digest()]


FINDING_REPLAYS = {}
