# C19 -- Parsing work is bounded linearly by the input size
#
# The bound is decided as a composition of per-loop obligations (the only places where the number of interpreter steps
# of a parse depends on the input are its loops and its nested parse calls; everything else is straight-line code of
# constant length per class):
#   progress   every input-driven loop of the binary layer runs under a loop contract (loops.ProgressLoop): from an
#              ARBITRARY loop state satisfying the invariant, one iteration of the real body either leaves the loop
#              (break / exception) or consumes at least `step` bytes of the buffer, never more than are present. The trip
#              count is therefore at most len(buffer) / step, whatever count or length field the input declares.
#   trip       loops over a range computed from a declared count: the trip count is at most the number of bytes present
#              at loop entry (the NotEnoughData guard before the loop), so the declared value never drives work.
#   census     every loop of the parse-side functions of the binary layer is either one of the above, or iterates over a
#              collection that does not depend on the input (enum tables, variant lists, literal tuples), or over the
#              items a preceding parse step produced (at most one per byte); a loop that fits no category is an error.
#   recursion  the nesting of parse calls (class A parses class B) has no cycle at all, so the recursion depth is bounded by
#              the number of classes (a constant). (An earlier revision of this check tolerated the cycle certificate ->
#              signature key -> certificate "because the inner buffer is a strict sub-slice": that bounds the depth by the
#              input length, not by a constant - 300 nested certificates raised RecursionError; repaired in /repo 3cfb63c.)
# Linear bound: steps(C, b) <= A_C + B_C * len(b) follows by induction on the nesting depth: straight-line code is
# constant, each loop contributes (trips <= len(b)) * (constant body + nested cost on disjoint sub-slices).
import ast
import inspect
import textwrap

import z3

from pyvc import values as V, engine as E, interp as I, ops, vc, frame as F, loops
from pyvc.runner import Unit
from pyvc.values import SObj, SInt
from checks import common, e1, census

TRUSTED_BASE = common.TRUSTED_BASE
ASSUMPTIONS = common.ASSUMPTIONS + [
    'the composition of the per-loop obligations into steps <= A + B * len(input) is a pen-and-paper induction on the nesting depth (header of checks/c19.py); one interpreter step = one executed statement of repository code, library calls (struct, slicing, codecs) count as one step each',
    'item parsers consume at least one byte of a non-empty buffer (clause K2i, proved per item class by C03) and raise or return; nested parsers enter through their class contracts',
    'slicing the remaining buffer per item (unparsed_bytes[parsed_length:], the copy made by _parse_mpint) is one step; the bytes copied by such slices are not counted (the property counts interpreter steps)',
]
UNCOVERED = ['text layer (ParserText loops other than the separator scan of _parse_string_until_separator; HTTP header fields, SSH banner, DNS TXT key-value text): not under contract (C18 territory)',
             'X.509 / asn1crypto and LDAP parsing (external code)',
             'the constants A_C, B_C are not computed; only their existence (constant straight-line code, bounded trip counts) is established']
BOUNDED = []


def _parser_state(frame, name='parser'):
    p = frame.lookup(name)
    return p, ops.as_int(p.f['_parsed_length']), ops.as_seq(p.f['_parsable']).n


def _consumed(name='parser'):
    return lambda fr: _parser_state(fr, name)[1]


def _limit(name='parser'):
    return lambda fr: _parser_state(fr, name)[2]


def _inv_nonneg(name='parser'):
    return lambda fr: [('0 <= parsed_length', _parser_state(fr, name)[1] >= 0)]


def register_progress_contracts():
    PL = loops.ProgressLoop
    # vector of parsable items: consumed = items_size - len(unparsed_bytes)
    from contracts.common_parse import derived_array_roles as roles       # locals by role (rename-robust)

    class DerivedArrayProgress(PL):
        def _havoc(self, frame, ctx=None):
            self.variables = [roles(frame)['rest']]
            return PL._havoc(self, frame, ctx)
    F.LOOPS[('ParserBinary._parse_parsable_derived_array', 0)] = DerivedArrayProgress(
        ['unparsed_bytes'],
        measure=lambda fr: ops.as_int(fr.lookup(roles(fr)['items_size'])) - ops.as_seq(fr.lookup(roles(fr)['rest'])).n,
        limit=lambda fr: ops.as_int(fr.lookup(roles(fr)['items_size'])),
        inv=lambda fr: [('the rest of the input is a suffix of the items', ops.as_seq(fr.lookup(roles(fr)['rest'])).n >= 0)])
    # count-driven loops of the X.509 certificate chain host key (declared certificate / OCSP response counts)
    for k in (0, 1):
        F.LOOPS[('SshX509CertificateChain._parse', k)] = PL(['parser._parsed_length', 'certificates', 'ocsp_responses'][:2 + k],
                                                            _consumed(), _limit(), _inv_nonneg(), step=4)
    F.LOOPS[('DnsNameUncompressed._parse', 0)] = PL(['parser._parsed_length'], _consumed(), _limit(), _inv_nonneg())
    F.LOOPS[('DnsRecordTxt._parse', 0)] = PL(['parser._parsed_length', 'value'], _consumed(), _limit(), _inv_nonneg())
    F.LOOPS[('DnsRecordDnskey.key_tag', 0)] = PL(['key_tag', 'parser._parsed_length'], _consumed(), _limit(), _inv_nonneg(), step=2)


def only_loop_obligations(res, prefix):
    import copy
    out = copy.copy(res)
    out.obligations = [o for o in res.obligations if o['kind'] in ('loop-entry', 'loop-step') and prefix in (o.get('where') or o['name'])]
    return out


def class_loop_unit(cls, qual, n_loops, entry=None):
    """the real _parse of cls on an arbitrary buffer with the progress contracts registered; only the loop obligations of
    `qual` count here (the other clauses of the class belong to C02/C03)"""
    def run():
        e1.setup()
        register_progress_contracts()
        buf_thunk = entry or (lambda b: I.call(cls.parse_immutable, [b], {}))

        def thunk():
            P = E.cur()
            buf, facts = V.base_seq('buf')
            for f in facts:
                P.assume(f)
            P.inputs['buf'] = buf
            P.buf = buf
            P.top_class = cls
            try:
                buf_thunk(buf)
            except E.PyRaise:
                pass
        res = vc.run_unit(cls.__name__, thunk, max_paths=4000)
        out = only_loop_obligations(res, qual)
        seen = {o.get('where') for o in out.obligations if o['kind'] == 'loop-step'}
        if len(seen) < n_loops and not out.unsupported:
            out.unsupported.append('expected progress obligations for %d loops of %s, got %d (%s)' % (n_loops, qual, len(seen), sorted(seen)))
        return out
    return run


def derived_array_unit(ics, fb):
    from cryptoparser.common.parse import ParserBinary, ByteOrder
    fn = ParserBinary._parse_parsable_derived_array

    def run():
        e1.setup()
        register_progress_contracts()

        def thunk():
            from cryptoparser.tls.record import TlsRecord
            P = E.cur()
            P.top_class = TlsRecord              # any class other than the items: the items enter by contract (K1/K2/K2i)
            p, facts = V.base_seq('p')
            for f in facts:
                P.assume(f)
            pl, s = z3.Int('pl'), z3.Int('items_size')
            P.assume(z3.And(pl >= 0, pl <= p.n, s >= 0))
            P.inputs.update(parsable=p, parsed_length=SInt(pl), items_size=SInt(s))
            o = SObj(ParserBinary, dict(_parsable=p, _parsed_length=SInt(pl), _parsed_values={}, byte_order=ByteOrder.NETWORK))
            try:
                common.run_body(fn, [o, SInt(s), list(ics), fb])
            except E.PyRaise:
                pass
        res = vc.run_unit('derived-array', thunk, max_paths=4000)
        out = only_loop_obligations(res, '_parse_parsable_derived_array')
        if not any(o['kind'] == 'loop-step' for o in out.obligations) and not out.unsupported:
            out.unsupported.append('no progress obligation generated')
        return out
    return run


def numeric_array_trip_unit(size):
    from cryptoparser.common.parse import ParserBinary, ByteOrder
    fn = ParserBinary._parse_numeric_array

    class TripBound(object):
        def __init__(self, inner):
            self.inner = inner

        def __getattr__(self, a):
            return getattr(self.inner, a)

        def entry(self, frame, ctx):
            p = frame.lookup('self')
            present = ops.as_seq(p.f['_parsable']).n - ops.as_int(p.f['_parsed_length'])
            return list(self.inner.entry(frame, ctx)) + [
                ('trip count * item size <= bytes present (the declared count never drives the loop beyond the data)',
                 ctx.n * size <= present)]

    def run():
        e1.setup()
        key = ('ParserBinary._parse_numeric_array', 0)
        inner = F.LOOPS.get(key)
        if inner is None:
            r = vc.UnitResult('trip')
            r.unsupported.append('no loop contract registered for %s:%d' % key)
            return r
        F.LOOPS[key] = TripBound(inner)
        I.INLINE.add(fn)

        def thunk():
            P = E.cur()
            p, facts = V.base_seq('p')
            for f in facts:
                P.assume(f)
            pl, n = z3.Int('pl'), z3.Int('item_num')
            P.assume(z3.And(pl >= 0, pl <= p.n))
            P.inputs.update(parsable=p, parsed_length=SInt(pl), item_num=SInt(n))
            o = SObj(ParserBinary, dict(_parsable=p, _parsed_length=SInt(pl), _parsed_values={}, byte_order=ByteOrder.NETWORK))
            try:
                common.run_body(fn, [o, 'x', SInt(n), size, int])
            except E.PyRaise:
                pass
        res = vc.run_unit('numeric-array-trip', thunk, max_paths=2000)
        out = only_loop_obligations(res, '_parse_numeric_array')
        if not any('trip count' in o['name'] for o in out.obligations) and not out.unsupported:
            out.unsupported.append('no trip-count obligation generated')
        return out
    return run


class ScanStart(object):
    """entry-only contract for a forward scan `for i in range(start, len(buffer) + 1)`: the scan starts where the caller's
    item starts, i.e. its trip count is at most the bytes from that offset on (+1); the body is not explored"""
    force = False

    def __init__(self, offset_name):
        self.offset_name = offset_name

    def applies(self, frame):
        return True

    def entry(self, frame, ctx):
        p = frame.lookup('self')
        n = ops.as_seq(p.f['_parsable']).n
        off = ops.as_int(frame.lookup(self.offset_name))
        return [('the scan covers only the bytes from the item offset on: trip count <= len(buffer) - item_offset + 1', ctx.n <= n - off + 1)]

    def arbitrary(self, frame, ctx, k):
        raise E.PathEnd()

    def after(self, frame, ctx, k):
        return []

    def exit(self, frame, ctx):
        raise E.PathEnd()

    def on_break(self, frame, ctx, k):
        pass


def text_scan_unit():
    """ParserText._parse_string_until_separator (reached from the SSH name-lists through VectorString): the separator search
    of one item starts at that item's offset, whatever was parsed before it"""
    from cryptoparser.common.parse import ParserText
    fn = ParserText._parse_string_until_separator

    def run():
        e1.setup()
        key = None
        for k, it in loops_of(fn):
            if it.startswith('range(') and 'len(self._parsable)' in it:
                key = (fn.__qualname__, k)
        if key is None:
            r = vc.UnitResult('scan')
            r.unsupported.append('the forward scan loop of _parse_string_until_separator was not found')
            return r
        F.LOOPS[key] = ScanStart('item_offset')
        I.INLINE.add(fn)

        def thunk():
            P = E.cur()
            p, facts = V.base_seq('p')
            for f in facts:
                P.assume(f)
            pl, off = z3.Int('parsed_length'), z3.Int('item_offset')
            P.assume(z3.And(pl >= 0, pl <= off, off <= p.n))
            P.inputs.update(parsable=p, parsed_length=SInt(pl), item_offset=SInt(off))
            o = SObj(ParserText, dict(_parsable=p, _parsed_length=SInt(pl), _parsed_values={}, _encoding='ascii'))
            try:
                common.run_body(fn, [o, 'x', SInt(off), ',', str, None, True, ''])
            except E.PyRaise:
                pass
        res = vc.run_unit('text-scan', thunk, max_paths=200)
        out = only_loop_obligations(res, '_parse_string_until_separator')
        if not any('trip count' in o['name'] for o in out.obligations) and not out.unsupported:
            out.unsupported.append('no trip-count obligation generated')
        return out
    return run


def search_text_scan(seed, hints=()):
    from cryptoparser.ssh.subprotocol import SshKexAlgorithmVector
    def names(n):
        body = b','.join(b'a%d' % i for i in range(n // 5))
        return len(body).to_bytes(4, 'big') + body
    return native_growth(SshKexAlgorithmVector, names)


# ------------------------------------------------------------------------------------------------------- census
CONSTANT_ITERABLES = ('cls._get_cipher_attributes()', 'item_classes', 'cls._get_variant_types()', 'self._get_variant_types()', 'cls.get_enum_class()',
                      'list(cls.get_enum_class())', 'enum_items', 'cls', 'flags_class', 'SshEllipticCurveIdentifier',
                      'TlsExtensionType', 'byte_separators')
# (qualname, ordinal) -> how the loop is covered
COVERED = {
    ('ParserBinary._parse_parsable_derived_array', 0): 'progress contract (this check)',
    ('ParserBinary._parse_parsable_derived_array', 1): 'inner loop over the constant list item_classes',
    ('ParserBinary._parse_numeric_array', 0): 'trip-count obligation (this check) + functional loop contract (C11)',
    ('ParserBinary._parse_mpint', 0): 'iterates the items _parse_numeric_array produced (one per 4 bytes present); functional contract in C11',
    ('ParserBinary.parse_string_null_terminated', 0): 'single forward scan of the remaining bytes (first-match contract, C02)',
    ('ParserBinary.parse_numeric_flags', 0): 'iterates the members of the flag enumeration (constant)',
    ('SshX509CertificateChain._parse', 0): 'progress contract (this check): declared certificate count',
    ('SshX509CertificateChain._parse', 1): 'progress contract (this check): declared OCSP response count',
    ('DnsNameUncompressed._parse', 0): 'progress contract (this check)',
    ('DnsRecordTxt._parse', 0): 'progress contract (this check)',
    ('TlsHandshakeClientHello._parse', 0): 'iterates the cipher suites the vector parser produced (one per 2 bytes present)',
    ('Opaque._parse', 0): 'iterates the bytes that were read (one per byte present)',
    ('OpaqueEnumParsable._parse', 0): 'iterates the members of the enumeration (constant table)',
    ('OpaqueEnumParsable._parse', 1): 'iterates the members of the enumeration (constant table)',
    ('NByteEnumParsable._parse', 0): 'iterates the members of the enumeration (constant table); loop contract in C10',
    ('VariantParsable._parse', 0): 'iterates the constant list of variant classes',
    ('VariantParsableExact._parse', 0): 'iterates the constant list of variant classes',
    ('TlsExtensionPadding._parse', 0): 'single forward scan of the padding bytes that were read',
    ('SshHostKeyDSSBase._parse', 0): 'iterates the literal list of the four parameter names',
    ('SshHostKeyDSSBase._parse', 1): 'iterates the literal list of the four parameter names',
    ('SshHostCertificateBase._parse_constraints', 0): 'iterates the constant table of constraint variants',
}
# loops named here are reported as NOT under contract (the census accepts them, the evidence lists them as uncovered)
UNCOVERED_LOOPS = {
    ('ParserBinary.parse_parsable_list', 0): 'removes one of the items the derived-array parser produced per iteration (text-layer list syntax: separator / item alternation); no contract',
}


def parse_side_functions():
    """functions named _parse* / parse* defined in the binary-layer modules (classes of the census + ParserBinary)"""
    from cryptoparser.common import parse as RP, base as RB
    out = []
    mods = [m for m in census.all_modules() if not m.__name__.startswith(('cryptoparser.httpx', 'cryptoparser.common.field'))]
    seen = set()
    for m in mods:
        for cname, c in vars(m).items():
            if not (isinstance(c, type) and c.__module__ == m.__name__):
                continue
            if c.__name__ in ('ParserText', 'ComposerText'):
                continue
            try:
                if issubclass(c, RB.ParsableBaseNoABC) and census.is_text(c):
                    continue
            except Exception:
                pass
            for fname, f in vars(c).items():
                fn = getattr(f, '__func__', f)
                fn = getattr(fn, 'fget', fn) if isinstance(f, property) else fn
                if not inspect.isfunction(fn) or not (fname.startswith('_parse') or fname.startswith('parse')):
                    continue
                if fn in seen:
                    continue
                seen.add(fn)
                out.append(fn)
    return out


def loops_of(fn):
    try:
        node = ast.parse(textwrap.dedent(inspect.getsource(fn))).body[0]
    except (OSError, TypeError, SyntaxError):
        return []
    ls = [n for n in ast.walk(node) if isinstance(n, (ast.For, ast.While, ast.ListComp, ast.SetComp, ast.GeneratorExp, ast.DictComp))]
    ls.sort(key=lambda n: (n.lineno, n.col_offset))
    out = []
    for k, n in enumerate(ls):
        if isinstance(n, ast.For):
            it = ast.unparse(n.iter)
        elif isinstance(n, ast.While):
            it = 'while ' + ast.unparse(n.test)
        else:
            it = ast.unparse(n.generators[0].iter)
        out.append((k, it))
    return out


def census_unit():
    def run():
        res = vc.UnitResult('census')
        res.paths = 1
        missing, n = [], 0
        for fn in parse_side_functions():
            for k, it in loops_of(fn):
                n += 1
                key = (fn.__qualname__, k)
                if key in COVERED or key in UNCOVERED_LOOPS:
                    continue
                if it in CONSTANT_ITERABLES or it.startswith(('[(', "['", '((', "('")):
                    continue
                missing.append('%s loop#%d over %s' % (fn.__qualname__, k, it[:60]))
        res.obligations.append(dict(name='parse-side loops of the binary layer scanned: %d' % n, kind='ground', status='proved', detail=None, where=None, seconds=0))
        res.obligations.append(dict(name='every parse-side loop is under a progress / trip contract or iterates an input-independent collection',
                                    kind='ground', status='proved' if not missing else 'unknown',
                                    detail=dict(reason='loops without a contract: ' + '; '.join(missing)) if missing else None, where=None, seconds=0))
        if missing:
            res.unsupported.append('parse-side loops without a contract: ' + '; '.join(missing))
        return res
    return Unit('census/parse-side-loops', run, clause='census', backend='native-ground', replay=lambda inputs: growth_battery(0),
                search=growth_battery)


def recursion_unit():
    """nesting graph of parse calls: A -> B when A's parse-side code names class B in a parse_parsable* / parse_immutable
    call or B is an item / variant class of A; cycles other than the listed one are an error"""

    def run():
        import re
        res = vc.UnitResult('recursion')
        res.paths = 1
        classes = {c.__name__: c for c in census.concrete_parsables()}
        from cryptoparser.common import base as RB
        for c in list(classes.values()):
            for k in type.mro(c):
                if isinstance(k, type) and issubclass(k, RB.ParsableBaseNoABC):
                    classes.setdefault(k.__name__, k)
        edges = {}
        for name, c in classes.items():
            tgt = set()
            for fname, f in vars(c).items():
                fn = getattr(f, '__func__', f)
                if inspect.isfunction(fn) and (fname.startswith('_parse') or fname.startswith('parse')):
                    try:
                        src = inspect.getsource(fn)
                    except (OSError, TypeError):
                        continue
                    for m in re.finditer(r'\b([A-Z][A-Za-z0-9_]+)\b', src):
                        if m.group(1) in classes and m.group(1) != name:
                            tgt.add(m.group(1))
                    # a parser that calls itself (cls._parse(...), cls.parse_*(...), Name._parse(...)) is a cycle of length 1
                    # (the public wrappers parse_immutable / parse_exact_size / parse_mutable of the base class dispatch to
                    # cls._parse by design: only a _parse* function calling a parse entry point of its own class counts)
                    if fname.startswith('_parse') and name not in ('ParsableBaseNoABC', 'ParsableBase') and \
                            re.search(r'\b(cls|self|%s)\.(_parse|parse_immutable|parse_exact_size|parse_mutable|parse)\(' % re.escape(name), src):
                        tgt.add(name)
            if issubclass(c, RB.ArrayBase):
                try:
                    p = c.get_param()
                    for k in (getattr(p, 'item_class', None), getattr(p, 'fallback_class', None)):
                        if isinstance(k, type) and k.__name__ in classes:
                            tgt.add(k.__name__)
                except Exception:
                    pass
            if issubclass(c, RB.VariantParsableBase):
                try:
                    for t in c._get_variant_types():
                        if isinstance(t, type) and t.__name__ in classes:
                            tgt.add(t.__name__)
                except Exception:
                    pass
            for b in c.__mro__[1:]:
                pass
            edges[name] = tgt
        # subclasses inherit the parse code of their bases
        for name, c in classes.items():
            for b in c.__mro__[1:]:
                if b.__name__ in edges:
                    edges[name] = edges[name] | edges[b.__name__]
        cycles = []
        color = {}

        def dfs(u, stack):
            color[u] = 1
            for v in sorted(edges.get(u, ())):
                if color.get(v) == 1:
                    cyc = stack[stack.index(v):] + [v]
                    cycles.append(cyc)
                elif v not in color:
                    dfs(v, stack + [v])
            color[u] = 2
        for u in sorted(edges):
            if u not in color:
                dfs(u, [u])

        def allowed(cyc):
            return False          # recursion depth must be bounded by a constant: no cycle among the parsers is acceptable
        bad = [c for c in cycles if not allowed(c)]
        res.obligations.append(dict(name='nesting graph of parse calls built: %d classes, %d edges' % (len(edges), sum(len(v) for v in edges.values())),
                                    kind='ground', status='proved', detail=None, where=None, seconds=0))
        res.obligations.append(dict(name='no recursion among parsers: the nesting graph of parse calls is acyclic, so the nesting depth is bounded by the (constant) number of classes',
                                    kind='ground', status='proved' if not bad else 'failed',
                                    detail=dict(inputs=dict(cycles=[' -> '.join(c) for c in bad[:5]])) if bad else None, where=None, seconds=0))
        res.extra['allowed_cycles'] = [' -> '.join(c) for c in cycles if allowed(c)][:10]
        return res
    def nested_certificates(seed=0, hints=()):
        """native witness for a cycle through the certificate signature key: 300 certificates nested in each other"""
        import sys
        from cryptoparser.ssh import key as SK
        from cryptodatahub.common.key import PublicKey, PublicKeyParamsEddsa
        from cryptodatahub.common.algorithm import NamedGroup
        from cryptodatahub.ssh.algorithm import SshHostKeyAlgorithm
        pk = PublicKey.from_params(PublicKeyParamsEddsa(curve_type=NamedGroup.CURVE25519, key_data=b'\x00\x01\x02\x03'))
        k = SK.SshHostKeyEDDSA(host_key_algorithm=SshHostKeyAlgorithm.SSH_ED25519, public_key=pk)
        old = sys.getrecursionlimit()
        try:
            sys.setrecursionlimit(100000)
            for _ in range(300):
                k = SK.SshHostCertificateV01EDDSA(
                    host_key_algorithm=SshHostKeyAlgorithm.SSH_ED25519_CERT_V01_OPENSSH_COM, nonce=b'', public_key=pk, serial=1,
                    certificate_type=SK.SshCertType.SSH_CERT_TYPE_HOST, key_id='', valid_principals=SK.SshCertValidPrincipals([]),
                    valid_after=None, valid_before=None, critical_options=SK.SshCertCriticalOptionVector([]),
                    extensions=SK.SshCertExtensionVector([]), reserved=b'', signature_key=k,
                    signature=SK.SshCertSignature(SshHostKeyAlgorithm.SSH_ED25519, b''))
            wire = bytes(k.compose())
        except Exception as ex:
            return dict(reproduced=False, error=repr(ex)[:200])
        finally:
            sys.setrecursionlimit(old)
        try:
            SK.SshHostPublicKeyVariant.parse_exact_size(wire)
        except RecursionError:
            return dict(reproduced=True, call='SshHostPublicKeyVariant.parse_exact_size(<300 nested certificates, %d bytes>)' % len(wire),
                        expected='a parse error or an object, at constant recursion depth', observed='RecursionError', key='recursion')
        except Exception:
            pass
        # self-referential inputs for the parsers of nested / indirect structures (compression-pointer style)
        from cryptoparser.dnsrec.record import DnsNameUncompressed, DnsRecordMx
        for pcls, data in ((DnsNameUncompressed, b'\xc0\x00'), (DnsNameUncompressed, b'\xc0\x02' * 300 + b'\x01a\x00'), (DnsRecordMx, b'\x00\x0a\xc0\x00')):
            depth = [0, 0]

            def prof(frame, event, arg):
                if 'cryptoparser' in frame.f_code.co_filename:
                    if event == 'call':
                        depth[0] += 1
                        depth[1] = max(depth[1], depth[0])
                    elif event == 'return':
                        depth[0] -= 1
            sys.setprofile(prof)
            try:
                pcls.parse_immutable(data)
            except RecursionError:
                depth[1] = 10 ** 6
            except Exception:
                pass
            finally:
                sys.setprofile(None)
            if depth[1] > 60:
                return dict(reproduced=True, call='%s.parse_immutable(bytes.fromhex(%r))' % (pcls.__name__, data.hex()[:80]),
                            expected='recursion depth bounded by a constant', observed='call depth %s inside the library' % (
                                'beyond the recursion limit' if depth[1] >= 10 ** 6 else depth[1]), key='recursion')
        return dict(reproduced=False)
    return Unit('recursion/parse-nesting-graph', run, clause='recursion', backend='native-ground',
                replay=lambda inputs: nested_certificates(), search=nested_certificates)


# ------------------------------------------------------------------------------------------------------- native side
def steps_of(fn, *args):
    """number of line events in repository code while fn(*args) runs (the observable the property names)"""
    import sys
    count = [0]

    def tracer(frame, event, arg):
        if 'cryptoparser' not in frame.f_code.co_filename:
            return None

        def local(frame, event, arg):
            if event == 'line':
                count[0] += 1
                if count[0] > 3_000_000:
                    raise RuntimeError('step limit')
            return local
        return local
    sys.settrace(tracer)
    try:
        try:
            fn(*args)
        except RuntimeError as e:
            if 'step limit' in str(e):
                return None
        except Exception:
            pass
    finally:
        sys.settrace(None)
    return count[0]


def native_growth(cls, make):
    """steps for inputs of size n and 4n: more than 6x (or a hit step limit) contradicts a linear bound"""
    a, b = make(400), make(1600)
    sa, sb = steps_of(cls.parse_immutable, a), steps_of(cls.parse_immutable, b)
    if sa is None or sb is None or (sa > 200 and sb > 6 * sa + 2000):
        return dict(reproduced=True, call='%s.parse_immutable on %d and %d bytes' % (cls.__name__, len(a), len(b)),
                    expected='steps grow at most linearly', observed='%s and %s line events' % (sa, sb), key='superlinear')
    return dict(reproduced=False)


def search_derived(seed, hints=()):
    from cryptoparser.tls.extension import TlsExtensionsClient
    from cryptoparser.tls.subprotocol import TlsCipherSuiteVector
    def exts(n):
        body = b''.join(b'\xff\x01\x00\x00' for _ in range(n // 4))
        return len(body).to_bytes(2, 'big') + body
    w = native_growth(TlsExtensionsClient, exts)
    if w.get('reproduced'):
        return w
    def suites(n):
        body = b'\x13\x01' * (n // 2)
        return len(body).to_bytes(2, 'big') + body
    return native_growth(TlsCipherSuiteVector, suites)


def search_x509(seed, hints=()):
    from cryptoparser.ssh.key import SshX509CertificateChain
    name = b'x509v3-ssh-rsa'
    def declared(n):
        return len(name).to_bytes(4, 'big') + name + (0xffffffff).to_bytes(4, 'big') + b'\x00' * n
    return native_growth(SshX509CertificateChain, declared)


def search_dns(seed, hints=()):
    from cryptoparser.dnsrec.record import DnsNameUncompressed, DnsRecordTxt
    w = native_growth(DnsNameUncompressed, lambda n: b'\x01a' * (n // 2) + b'\x00')
    if w.get('reproduced'):
        return w
    return native_growth(DnsRecordTxt, lambda n: b'\x01a' * (n // 2))


def growth_battery(seed=0, hints=()):
    """native cross-check used when a loop obligation or the census does not decide: line events for inputs of size n and
    4n across the input-driven parsers (a more than linear growth is replayed as the failing input)"""
    from cryptoparser.tls.subprotocol import TlsHandshakeClientHello, TlsHandshakeServerHello

    def hello(n, server=False):
        exts = b''.join((0x4000 + i).to_bytes(2, 'big') + b'\x00\x00' for i in range(max(1, n // 4)))
        if server:
            body = b'\x03\x03' + bytes(32) + b'\x00' + b'\x13\x01' + b'\x00' + len(exts).to_bytes(2, 'big') + exts
            return b'\x02' + len(body).to_bytes(3, 'big') + body
        body = b'\x03\x03' + bytes(32) + b'\x00' + b'\x00\x02\x13\x01' + b'\x01\x00' + len(exts).to_bytes(2, 'big') + exts
        return b'\x01' + len(body).to_bytes(3, 'big') + body
    for cls, make in ((TlsHandshakeClientHello, lambda n: hello(n)), (TlsHandshakeServerHello, lambda n: hello(n, True))):
        w = native_growth(cls, make)
        if w.get('reproduced'):
            return w
    from cryptoparser.tls.extension import TlsExtensionsClient

    def ext_block(n, kind):
        if kind == 'key_share':
            entries = b''.join((0x4000 + i).to_bytes(2, 'big') + b'\x00\x01\xaa' for i in range(max(1, n // 5)))
            body = len(entries).to_bytes(2, 'big') + entries
            ext = b'\x00\x33' + len(body).to_bytes(2, 'big') + body
        elif kind == 'alpn':
            names = b''.join(b'\x02' + bytes([0x61 + i % 26, 0x61 + (i // 26) % 26]) for i in range(max(1, n // 3)))
            body = len(names).to_bytes(2, 'big') + names
            ext = b'\x00\x10' + len(body).to_bytes(2, 'big') + body
        else:
            algs = b''.join((0x0900 + i % 200).to_bytes(2, 'big') for i in range(max(1, n // 2)))
            body = len(algs).to_bytes(2, 'big') + algs
            ext = b'\x00\x0d' + len(body).to_bytes(2, 'big') + body
        return len(ext).to_bytes(2, 'big') + ext
    for kind in ('key_share', 'alpn', 'signature_algorithms'):
        w = native_growth(TlsExtensionsClient, lambda n, kind=kind: ext_block(n, kind))
        if w.get('reproduced'):
            return w
    for f in (search_derived, search_dns, search_x509, search_text_scan):
        w = f(seed)
        if w.get('reproduced'):
            return w
    return dict(reproduced=False)


def _units_body(tier, seed):
    from cryptoparser.tls.extension import TlsExtensionVariantClient, TlsExtensionUnparsed
    from cryptoparser.tls.ciphersuite import TlsCipherSuiteFactory
    from cryptoparser.tls.grease import TlsInvalidTypeTwoByte
    from cryptoparser.ssh.key import SshX509CertificateChain
    from cryptoparser.dnsrec.record import DnsNameUncompressed, DnsRecordTxt, DnsRecordDnskey
    mk = lambda name, run, search, fns: Unit(name, run, replay=lambda inputs, s=search: s(0), search=search, clause='progress', functions=fns)
    out = [
        mk('progress/_parse_parsable_derived_array[abstract items]', derived_array_unit([TlsExtensionVariantClient], TlsExtensionUnparsed),
           search_derived, ['ParserBinary._parse_parsable_derived_array']),
        mk('progress/_parse_parsable_derived_array[coded items]', derived_array_unit([TlsCipherSuiteFactory], TlsInvalidTypeTwoByte),
           search_derived, ['ParserBinary._parse_parsable_derived_array']),
        mk('progress/SshX509CertificateChain._parse[declared counts]', class_loop_unit(SshX509CertificateChain, 'SshX509CertificateChain._parse', 2),
           search_x509, ['SshX509CertificateChain._parse']),
        mk('progress/DnsNameUncompressed._parse', class_loop_unit(DnsNameUncompressed, 'DnsNameUncompressed._parse', 1), search_dns,
           ['DnsNameUncompressed._parse']),
        mk('progress/DnsRecordTxt._parse', class_loop_unit(DnsRecordTxt, 'DnsRecordTxt._parse', 1), search_dns, ['DnsRecordTxt._parse']),
    ]
    for size in (1, 2, 3, 4, 8):
        out.append(mk('trip/_parse_numeric_array[item_size=%d]' % size, numeric_array_trip_unit(size), search_derived,
                      ['ParserBinary._parse_numeric_array']))
    out.append(mk('trip/ParserText._parse_string_until_separator[scan starts at the item]', text_scan_unit(), search_text_scan,
                  ['ParserText._parse_string_until_separator']))
    out.append(census_unit())
    out.append(recursion_unit())
    UNCOVERED[:] = [u for u in UNCOVERED if not u.startswith('loop without contract')] + \
        ['loop without contract: %s loop#%d: %s' % (k[0], k[1], v) for k, v in sorted(UNCOVERED_LOOPS.items())]
    return out



def units(tier, seed):
    from checks import canary
    return list(_units_body(tier, seed)) + [canary.progress_two_bytes()]


FINDING_REPLAYS = {}
