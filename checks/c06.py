# C06 -- SSL/TLS messages are laid out exactly as the RFCs specify (K6 against spec/tls.py, plus K3)
from checks import common, k6family, regions
TRUSTED_BASE = common.TRUSTED_BASE
ASSUMPTIONS = common.ASSUMPTIONS + [
    'specification functions in /verif/spec/tls.py are transcribed from the cited RFC sections from memory (no RFC text in the sandbox); a reviewer with the text can check each against its citation',
]
UNCOVERED = []
BOUNDED = ['vectors of variable-size items: at most 1 item (coded/numeric vectors: any length)']
MODULES = ('cryptoparser.tls.record', 'cryptoparser.tls.subprotocol', 'cryptoparser.tls.extension', 'cryptoparser.tls.version',
           'cryptoparser.tls.grease', 'cryptoparser.common.x509')


def _units_body(tier, seed):
    us, unc = k6family.make_units('C06', MODULES, tier)
    UNCOVERED[:] = unc
    from checks import foundation
    from checks import hello, helloext, serverhello, certrequest
    # decoder side of the record/handshake headers: on every accepted buffer the consumed length is the length the RFC
    # header declares (contracts/framing.py, written from the specifications), for every symbolic buffer
    from checks import c03_k8, e1
    from contracts.framing import DECLARED
    hdr = [c03_k8.k8_unit(c) for c in common.select_classes(e1.binary_classes(), tier, 'K8')
           if e1.is_framing(c) and c.__name__ in DECLARED and c.__module__ in MODULES]
    for u in hdr:
        u.name = 'header/' + u.name
    from checks import tables as _tables
    _table_units = _tables.units(_tables.TLS)
    return list(us) + hdr + [hello.unit(('K6', 'K3'), 'K6+K3'), hello.decode_unit(), helloext.unit(), serverhello.unit(), serverhello.hrr_unit(), certrequest.unit()] + foundation.units(tier, seed) + _table_units



def units(tier, seed):
    from checks import canary
    return list(_units_body(tier, seed)) + [canary.e2_layout()]


FINDING_REPLAYS = regions.finding_replays('C06')
