# C05 -- Re-serialising an accepted input is a stable canonical form
#
# For an accepted byte string b let o1 = parse(b), b2 = compose(o1), o2 = parse(b2). The property asks: b2 exists,
# o2 == o1 (all of b2 consumed) and compose(o2) == b2. It is decided as a lemma over three contracts:
#   K5a  compose() succeeds on EVERY object the parser returns            -- stated and proved here, per class, on the
#        symbolic exploration of the real _parse followed by the real compose (arbitrary accepted buffer)
#   K3   parse(compose(o)) == o and consumes everything, for every object o on which compose succeeds   -- C01's clause
#        (a symbolic object over the whole constructor domain; the parser builds o1 through the same constructor)
#   K9   compose() is a function of the object's fields and does not change them      -- C13's clause; with o2 == o1
#        (field-wise equality) it gives compose(o2) == compose(o1) = b2
# Lemma: K5a /\ K3 /\ K9  ==>  C05, with o = o1 in K3. The units below discharge K5a and re-run the K3/K9 units of the
# same classes, so that a change breaking any of the three premises fails a named obligation of this check.
import z3

from pyvc import values as V, engine as E, interp as I, ops, vc
from pyvc.runner import Unit
from checks import common, e1, e2, regions

TRUSTED_BASE = common.TRUSTED_BASE
ASSUMPTIONS = common.ASSUMPTIONS + [
    'lemma K5a /\\ K3 /\\ K9 ==> C05 is a pen-and-paper step (stated in the header of checks/c05.py); the parser builds its result through the constructor, so the result lies in the domain over which K3 is proved',
]
UNCOVERED = []
BOUNDED = ['vectors of variable-size items: at most 2 items on the parse side (reported per unit)']


KF_EXT = 'KF-C05-extension-longer-than-declared'
EXT_KNOWN = False


def _is_parsed_extension(cls):
    from cryptoparser.tls.extension import TlsExtensionParsed
    return issubclass(cls, TlsExtensionParsed)


def listed(fid):
    import json, os
    p = os.path.join(common.HERE, 'known_findings.json')
    return any(f.get('id') == fid for f in json.load(open(p)).get('findings', []))


def w_extension():
    from cryptoparser.tls.extension import TlsExtensionEllipticCurves
    data = b'\x00\x0a\xff\xff\xff\xfe' + b'\x00\x17' * 32767
    try:
        o, n = TlsExtensionEllipticCurves.parse_immutable(data)
    except Exception as ex:
        return dict(reproduced=False, observed='rejected: %r' % (ex,))
    try:
        o.compose()
    except Exception as ex:
        return dict(reproduced=True, observed='accepted %d octets (header declares 65535), compose raises %r' % (n, ex))
    return dict(reproduced=False, observed='composes')


def k5a_unit(cls):
    name = cls.__name__

    def thunk():
        from contracts import nested
        P = E.cur()
        buf, facts = V.base_seq('buf')
        for f in facts:
            P.assume(f)
        P.inputs['buf'] = buf
        P.buf = buf
        P.top_class = cls
        o1, n = I.call(cls.parse_immutable, [buf], {})             # rejecting paths end here
        if EXT_KNOWN and _is_parsed_extension(cls):
            # listed finding: an extension whose payload runs past the extension_length its header declares
            from contracts.framing import be
            P.assume(ops.as_int(n) <= 4 + be(buf, 2, 2))
        out = vc.outcome_of(lambda: I.call(I.getattr_(o1, 'compose'), [], {}))
        e1.record_path_fact(P, 'K5a %s: compose() accepts the object the parser returned%s' % (
            name, '' if out.kind == 'ret' else ' (raised %s)' % out.value.cls.__name__), out.kind == 'ret')

    def run():
        from contracts import nested
        e1.setup()
        # nested parsables are interpreted, not abstracted: whether compose() accepts the parsed object depends on the
        # contents of the nested objects (their lengths against the enclosing length prefixes)
        nested.ABSTRACT_DISABLED = True
        try:
            return vc.run_unit(name, thunk, max_paths=4000)
        finally:
            nested.ABSTRACT_DISABLED = False

    def native(data):
        try:
            o1, n = cls.parse_immutable(data)
        except Exception:
            return dict(reproduced=False)
        if EXT_KNOWN and _is_parsed_extension(cls) and len(data) >= 4 and n > 4 + int.from_bytes(bytes(data[2:4]), 'big'):
            return dict(reproduced=False)                          # the listed finding
        call = '%s.parse_immutable(bytes.fromhex(%r))[0].compose()' % (name, bytes(data).hex())
        try:
            b2 = bytes(o1.compose())
        except Exception as ex:
            return dict(reproduced=True, call=call, expected='composes', observed=repr(ex)[:200], key='compose fails')
        try:
            o2, n2 = cls.parse_immutable(b2)
        except Exception as ex:
            return dict(reproduced=True, call=call + ' re-parsed', expected='accepted', observed=repr(ex)[:200], key='re-parse fails')
        if o2 != o1 or n2 != len(b2):
            return dict(reproduced=True, call=call + ' re-parsed', expected='equal object, all %d bytes' % len(b2),
                        observed='equal=%s n=%d' % (o2 == o1, n2), key='re-parse differs')
        try:
            b3 = bytes(o2.compose())
        except Exception as ex:
            return dict(reproduced=True, call=call + ' second compose', expected=b2.hex(), observed=repr(ex)[:200], key='second compose')
        if b3 != b2:
            return dict(reproduced=True, call=call + ' second compose', expected=b2.hex(), observed=b3.hex(), key='second compose')
        return dict(reproduced=False)

    def replay(inputs):
        data = e1.bytes_of(inputs)
        if data is None:
            return dict(reproduced=False)
        return native(data)

    def search(seed, hints=()):
        for data in e1.mutations(seed, cls, list(hints) + common.samples(cls)):
            w = native(data)
            if w.get('reproduced'):
                return w
        return dict(reproduced=False)
    return Unit('K5a/%s' % common.class_key(cls), run, replay=replay, search=search, clause='K5a',
                functions=['%s._parse' % name, '%s.compose' % name])


def _units_body(tier, seed):
    global EXT_KNOWN
    EXT_KNOWN = listed(KF_EXT)
    from checks import c01, c13, foundation
    table = common.load_class_table()
    c01_classes = [c for c in common.select_classes(e1.binary_classes(), tier, 'C01')
                   if c.__name__ not in regions.whole_class_regions()]
    classes = [c for c in c01_classes if 'C05' not in table.get(common.class_key(c), {}).get('skip', {})
               and (tier == 'thorough' or 'C05' not in table.get(common.class_key(c), {}).get('thorough_only', []))]
    out = [k5a_unit(c) for c in classes]
    for c in classes:                      # the other two premises of the lemma, for the same classes
        out.append(Unit('K3/%s' % common.class_key(c), e2.clause_unit(c, ('K3',)), replay=c01.unit_for(c).replay, search=c01.unit_for(c).search,
                        clause='K3 (premise)', functions=['%s.compose' % c.__name__, '%s._parse' % c.__name__]))
        out.append(c13.k9_unit(c))
    UNCOVERED[:] = ['classes without a proved K3 (see C01: outside the supported subset or whole-class known findings) and text-layer '
                    'classes (HTTP headers, SSH banner, DNS TXT key-value text: C18 territory): ' +
                    ', '.join(sorted(common.class_key(c) for c in e1.binary_classes() if c not in classes))]
    from checks import hello, kexinit
    out.append(hello.unit(('K3', 'K9'), 'K3+K9 premises for the client hello'))
    out.append(kexinit.k5_unit())
    return out + foundation.units(tier, seed)



def units(tier, seed):
    from checks import canary
    return list(_units_body(tier, seed)) + [canary.e1_accepts()]


FINDING_REPLAYS = dict(regions.finding_replays('C05'), **{KF_EXT: w_extension})
