# K8 -- framing units are self-delimiting: if parsing b succeeds with (o, n), then parsing b[:n] followed by ANY other
# bytes succeeds with an equal object and the same n; and n is the length the frame header declares.
import z3

from pyvc import values as V, engine as E, interp as I, ops, vc
from pyvc.runner import Unit
from checks import common, e1


from contracts.framing import DECLARED


def k8_unit(cls):
    def thunk():
        P = E.cur()
        b, facts = V.base_seq('buf')
        for f in facts:
            P.assume(f)
        P.inputs['buf'] = b
        P.buf = b
        P.top_class = cls
        P.nested_memo = []
        o1, n1 = I.call(cls.parse_immutable, [b], {})            # only accepting paths continue
        n1e = ops.as_int(n1)
        if cls.__name__ in DECLARED:
            P.oblige('K8 %s: consumed length equals the length the header declares' % cls.__name__,
                     n1e == DECLARED[cls.__name__](b))
        rest, facts = V.base_seq('other')
        for f in facts:
            P.assume(f)
        P.inputs['other'] = rest
        b2 = V.concat(V.slice_seq(b, 0, n1e), rest, 'bytes')
        out = vc.outcome_of(lambda: I.call(cls.parse_immutable, [b2], {}))
        if out.kind != 'ret':
            e1.record_path_fact(P, 'K8 %s: the first n bytes followed by other bytes are accepted again (got %s)'
                                % (cls.__name__, out.value.cls.__name__), False)
            return
        o2, n2 = out.value
        P.oblige('K8 %s: same consumed length with a different suffix' % cls.__name__, ops.as_int(n2) == n1e)
        vc.oblige_equal(P, 'K8 %s: same object with a different suffix' % cls.__name__, o2, o1)

    def run():
        e1.setup()
        return vc.run_unit(cls.__name__, thunk, max_paths=3000)

    def native(data, other):
        try:
            o1, n1 = cls.parse_immutable(data)
        except Exception:
            return dict(reproduced=False)
        call = '%s.parse_immutable(bytes.fromhex(%r)) then with suffix %r' % (cls.__name__, data.hex(), other.hex())
        try:
            o2, n2 = cls.parse_immutable(data[:n1] + other)
        except Exception as ex:
            return dict(reproduced=True, call=call, expected='same object and n=%d' % n1, observed=repr(ex)[:200], key='suffix changes outcome')
        if n1 != n2 or o1 != o2:
            return dict(reproduced=True, call=call, expected='same object and n=%d' % n1, observed='n=%d, equal=%s' % (n2, o1 == o2),
                        key='suffix changes outcome')
        try:
            o3, n3 = cls.parse_immutable(data[:n1])
            if n3 != n1 or o3 != o1:
                return dict(reproduced=True, call=call, expected='first n bytes alone parse identically', observed='n=%d' % n3, key='suffix changes outcome')
        except Exception as ex:
            return dict(reproduced=True, call=call, expected='first n bytes alone parse identically', observed=repr(ex)[:200], key='suffix changes outcome')
        return dict(reproduced=False)

    def replay(inputs):
        data = e1.bytes_of(inputs)
        other = inputs.get('other') if isinstance(inputs, dict) else None
        other = bytes.fromhex(other['hex']) if isinstance(other, dict) and 'hex' in other else b''
        if data is None:
            return dict(reproduced=False)
        return native(data, other)

    def search(seed, hints=()):
        import random
        rnd = random.Random(seed)
        for data in e1.mutations(seed, cls, list(hints) + common.samples(cls)):
            for other in (b'', b'\x00', b'\xff\xff\xff\xff', bytes(rnd.randrange(256) for _ in range(7))):
                w = native(data, other)
                if w.get('reproduced'):
                    return w
        return dict(reproduced=False)
    return Unit('K8/%s' % common.class_key(cls), run, replay=replay, search=search, clause='K8',
                functions=['%s._parse' % cls.__name__])


def units(tier, seed):
    classes = [c for c in common.select_classes(e1.binary_classes(), tier, 'K8') if e1.is_framing(c)]
    return [k8_unit(c) for c in classes]
