# C03 -- reported consumed length is exact and framing units are self-delimiting
#   K2   every class: success => 0 <= n <= len(buffer) (n >= 1 for framing units; n >= 1 on non-empty input for
#        classes used as vector items)                                       [from the shared E1 exploration]
#   FR   parse_mutable / parse_exact_size / parse_immutable frame conditions, proved once against the class contract
#   K8   framing units: the result depends only on the first n bytes, and n is what the header declares
import z3

from pyvc import values as V, engine as E, interp as I, ops, vc
from pyvc.runner import Unit
from pyvc.values import SSeq
from checks import common, e1

TRUSTED_BASE = common.TRUSTED_BASE
ASSUMPTIONS = common.ASSUMPTIONS + [
    'nested parsers are deterministic functions of the bytes they are given (used by K8 when the same slice is parsed in both runs)',
]
UNCOVERED = []
BOUNDED = ['vectors of variable-size items: at most %d items explored (coded item kinds: any number, by contract)' % e1.ITEM_BOUND]


def k2_unit(cls):
    def run():
        res = e1.cached_full_unit(cls)
        out = e1.clause_view(res, 'K2')
        if not [o for o in out.obligations if o['name'].startswith('K2')]:
            # no success path at all (every input is rejected): K2 holds vacuously, say so explicitly
            out.obligations.append(dict(name='K2 %s: no accepting path exists (every buffer is rejected)' % cls.__name__,
                                        kind='post', status='proved', detail=None, where=None, seconds=0))
        return out

    def native(data):
        from cryptoparser.common.exception import InvalidType, NotEnoughData, TooMuchData
        from cryptodatahub.common.exception import InvalidValue
        try:
            obj, n = cls.parse_immutable(data)
        except Exception:
            return dict(reproduced=False)
        bad = not (0 <= n <= len(data)) or (e1.is_framing(cls) and n < 1)
        if bad:
            return dict(reproduced=True, call='%s.parse_immutable(bytes.fromhex(%r))' % (cls.__name__, data.hex()),
                        expected='0 <= n <= %d%s' % (len(data), ' and n >= 1' if e1.is_framing(cls) else ''), observed='n = %r' % n,
                        key='n out of range')
        return dict(reproduced=False)

    def replay(inputs):
        data = e1.bytes_of(inputs)
        return native(data) if data is not None else dict(reproduced=False)

    def search(seed, hints=()):
        for data in e1.mutations(seed, cls, list(hints) + common.samples(cls)):
            w = native(data)
            if w.get('reproduced'):
                return w
        return dict(reproduced=False)
    return Unit('K2/%s' % common.class_key(cls), run, replay=replay, search=search, clause='K2',
                functions=['%s._parse' % cls.__name__])


# ------------------------------------------------------------------------------------------------- frame conditions
def frame_unit(kind):
    """parse_mutable / parse_exact_size / parse_immutable of ParsableBaseNoABC against the class contract of cls._parse
    (K1 + K2): one proof covers every class, because only the contract of _parse is used"""
    from cryptoparser.tls.record import TlsRecord
    from cryptoparser.common.exception import TooMuchData

    def thunk():
        P = E.cur()
        buf, facts = V.base_seq('buf', 'bytearray' if kind == 'parse_mutable' else 'bytes')
        for f in facts:
            P.assume(f)
        P.inputs['buf'] = buf
        P.top_class = object            # every class is 'nested' here: _parse is used by contract only
        before = buf.copy()
        out = vc.outcome_of(lambda: I.call(getattr(TlsRecord, kind), [buf], {}))
        consumed = getattr(P, 'last_consumed', None)
        if kind == 'parse_mutable':
            if out.kind == 'ret':
                n = P.last_consumed
                P.oblige('parse_mutable removes exactly the first n bytes: length', buf.n == before.n - n)
                j = V.fresh_int('j')
                P.oblige('parse_mutable removes exactly the first n bytes: content',
                         z3.Implies(z3.And(j >= 0, j < buf.n), buf.at(j) == before.at(j + n)))
            else:
                vc.oblige_equal(P, 'a failed parse_mutable leaves the buffer untouched', buf, before)
                e1.record_path_fact(P, 'parse_mutable raises only what _parse raises', issubclass(out.value.cls, e1.FOUR))
        elif kind == 'parse_exact_size':
            if out.kind == 'ret':
                P.oblige('parse_exact_size succeeds only when n == len(buffer)', P.last_consumed == before.n)
            else:
                if out.value.cls is TooMuchData and getattr(P, 'last_consumed', None) is not None:
                    P.oblige('TooMuchData only when bytes are left over', P.last_consumed < before.n)
                e1.record_path_fact(P, 'parse_exact_size raises only the four parse errors', issubclass(out.value.cls, e1.FOUR))
            vc.oblige_equal(P, 'parse_exact_size does not modify the buffer', buf, before)
        else:
            if out.kind == 'ret':
                obj, n = out.value
                P.oblige('parse_immutable reports the length _parse consumed', ops.as_int(n) == P.last_consumed)
            vc.oblige_equal(P, 'parse_immutable does not modify the buffer', buf, before)
    return lambda: (e1.setup(), vc.run_unit('frame', thunk))[1]


def frame_native(seed=0, hints=()):
    """native cross-check of the three entry points on composed samples: exact-size <=> n == len, in-place removal of
    exactly n bytes, buffers untouched on failure"""
    from cryptoparser.common.exception import TooMuchData
    from cryptoparser.tls.record import TlsRecord
    from cryptoparser.tls.subprotocol import TlsAlertMessage, TlsAlertLevel, TlsAlertDescription
    from cryptoparser.tls.rdp import TPKT
    samples = []
    try:
        samples.append((TlsAlertMessage, bytes(TlsAlertMessage(TlsAlertLevel.FATAL, TlsAlertDescription.HANDSHAKE_FAILURE).compose())))
        samples.append((TPKT, bytes(TPKT(version=3, message=b'abc').compose())))
    except Exception:
        pass
    for cls in (TlsRecord,):
        samples += [(cls, s) for s in common.samples(cls)[:3]]
    for cls, good in samples:
        try:
            obj, n = cls.parse_immutable(good)
        except Exception:
            continue
        for tail in (b'', b' ', b'\n', b'\t\r\n ', b'\x00', b'\xff', b'\x0b\x0c'):
            data = good[:n] + tail
            call = '%s.parse_exact_size(bytes.fromhex(%r))' % (cls.__name__, data.hex())
            try:
                cls.parse_exact_size(data)
                if tail:
                    return dict(reproduced=True, call=call, expected='TooMuchData (%d bytes left over)' % len(tail), observed='accepted', key='exact size')
            except TooMuchData:
                if not tail:
                    return dict(reproduced=True, call=call, expected='accepted', observed='TooMuchData', key='exact size')
            except Exception as ex:
                return dict(reproduced=True, call=call, expected='accepted or TooMuchData', observed=repr(ex)[:100], key='exact size')
            buf = bytearray(data)
            try:
                cls.parse_mutable(buf)
                if bytes(buf) != tail:
                    return dict(reproduced=True, call='%s.parse_mutable(bytearray.fromhex(%r))' % (cls.__name__, data.hex()),
                                expected='%r left in the buffer' % tail, observed=repr(bytes(buf)), key='in place')
            except Exception as ex:
                return dict(reproduced=True, call='%s.parse_mutable(...)' % cls.__name__, expected='success', observed=repr(ex)[:100], key='in place')
        bad = bytearray(good[:max(0, n - 1)])
        keep = bytes(bad)
        try:
            cls.parse_mutable(bad)
        except Exception:
            if bytes(bad) != keep:
                return dict(reproduced=True, call='%s.parse_mutable(<truncated>)' % cls.__name__, expected='buffer untouched on failure',
                            observed=repr(bytes(bad))[:80], key='in place')
    return dict(reproduced=False)


def _units_body(tier, seed):
    classes = common.select_classes(e1.binary_classes(), tier, 'C03')
    out = [k2_unit(c) for c in classes]
    for kind in ('parse_mutable', 'parse_exact_size', 'parse_immutable'):
        out.append(Unit('FR/ParsableBaseNoABC.%s' % kind, frame_unit(kind), clause='frame', replay=lambda inputs: frame_native(0),
                        search=frame_native, functions=['ParsableBaseNoABC.%s' % kind]))
    from checks import c03_k8
    out.extend(c03_k8.units(tier, seed))
    UNCOVERED[:] = common.uncovered_report(e1.binary_classes(), classes)
    from checks import foundation
    return list(out) + foundation.units(tier, seed)



def units(tier, seed):
    from checks import canary
    return list(_units_body(tier, seed)) + [canary.e1_accepts()]


FINDING_REPLAYS = {}
