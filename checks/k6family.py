# shared implementation of the wire-layout checks C06 / C07 / C08 / C09 (clause K6 + K3 over the E2 exploration)
from pyvc.runner import Unit
from checks import common, e1, e2, rebuild, regions


def make_units(prop, modules, tier):
    classes = [c for c in common.select_classes(e1.binary_classes(), tier, prop)
               if c.__module__.startswith(tuple(modules)) and c.__name__ not in regions.whole_class_regions()]
    classes = [c for c in classes if 'C01' not in common.load_class_table().get(common.class_key(c), {}).get('skip', {})]
    with_spec = [c for c in classes if e2.has_spec(c)]
    without = [c for c in classes if not e2.has_spec(c)]
    units = []
    for c in with_spec:
        units.append(Unit('K6/%s' % common.class_key(c), e2.clause_unit(c, ('K6', 'K3')), replay=replay_for(c), clause='K6+K3',
                          functions=['%s.compose' % c.__name__, '%s._parse' % c.__name__, 'spec.%s' % c.__name__]))
    # classes whose round trip K3 is a listed known finding over the whole class: K6 alone (compose against the specification)
    c01_skipped = lambda c: 'C01' in common.load_class_table().get(common.class_key(c), {}).get('skip', {})
    for c in common.select_classes(e1.binary_classes(), tier, prop):
        # (also for classes whose round-trip exploration is outside the budget: their compose() alone is cheap)
        if c.__module__.startswith(tuple(modules)) and (c.__name__ in regions.whole_class_regions() or (prop == 'C09' and c01_skipped(c))) and e2.has_spec(c):
            units.append(Unit('K6-compose-only/%s' % common.class_key(c), e2.compose_only_unit(c), replay=replay_for(c), clause='K6',
                              functions=['%s.compose' % c.__name__, 'spec.%s' % c.__name__]))
    uncovered = ['no specification function written yet (K6 not stated; K3 is covered by C01): ' +
                 ', '.join(sorted(common.class_key(c) for c in without))]
    skipped = [common.class_key(c) for c in e1.binary_classes() if c.__module__.startswith(tuple(modules)) and c not in classes]
    if skipped:
        uncovered.append('outside the E2 exploration (see checks/classes.json and known_findings.json): ' + ', '.join(sorted(skipped)))
    return units, uncovered


def replay_for(cls):
    def replay(inputs):
        """K6 counterexample: the object is rebuilt natively, composed by the real code, and the specification function is
        evaluated on the same concrete object; only a real difference between the two byte strings is a reproduced violation"""
        try:
            o = rebuild.value(inputs.get('object'))
            wire = bytes(o.compose())
        except Exception as ex:
            return dict(reproduced=False, error=repr(ex))
        want = spec_bytes(cls, o)
        if want is None:
            return dict(reproduced=False, error='the specification could not be evaluated on the concrete object')
        if want == wire:
            return dict(reproduced=False, observed='composed bytes equal the specification encoding for the replayed object')
        return dict(reproduced=True, call='%r.compose()' % (o,), observed=wire.hex(), expected=want.hex(), key='layout differs')
    return replay


def spec_bytes(cls, native_obj):
    """the specification encoding of a concrete object (the specification function run on a path without assumptions)"""
    from pyvc import vc, engine as E, values as V
    from spec import wire as W, tls, opptls, dns, ssh      # noqa: F401  (registers the specification functions)
    out = {}

    def thunk():
        P = E.cur()
        seq = W.call_spec(cls.__name__, native_obj)
        n = V.simp(seq.n)
        import z3
        if not z3.is_int_value(n):
            return
        vals = []
        for k in range(n.as_long()):
            t = V.simp(seq.at(z3.IntVal(k)))
            if not z3.is_int_value(t):
                return
            vals.append(t.as_long() % 256)
        out['bytes'] = bytes(vals)
    try:
        e2.setup()
        vc.run_unit('spec', thunk, max_paths=4)
    except Exception:
        return None
    return out.get('bytes')
