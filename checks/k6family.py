# shared implementation of the wire-layout checks C06 / C07 / C08 / C09 (clause K6 + K3 over the E2 exploration)
from pyvc.runner import Unit
from checks import common, e1, e2, rebuild, regions


def make_units(prop, modules, tier):
    classes = [c for c in common.select_classes(e1.binary_classes(), tier, prop)
               if c.__module__.startswith(tuple(modules)) and c.__name__ not in regions.whole_class_regions()]
    classes = [c for c in classes if 'C01' not in common.load_class_table().get(common.class_key(c), {}).get('skip', {})]
    with_spec = [c for c in classes if e2.has_spec(c)]
    without = [c for c in classes if not e2.has_spec(c)]
    units = []
    for c in with_spec:
        units.append(Unit('K6/%s' % common.class_key(c), e2.clause_unit(c, ('K6', 'K3')), replay=replay_for(c), clause='K6+K3',
                          functions=['%s.compose' % c.__name__, '%s._parse' % c.__name__, 'spec.%s' % c.__name__]))
    # classes whose round trip K3 is a listed known finding over the whole class: K6 alone (compose against the specification)
    for c in common.select_classes(e1.binary_classes(), tier, prop):
        if c.__module__.startswith(tuple(modules)) and c.__name__ in regions.whole_class_regions() and e2.has_spec(c):
            units.append(Unit('K6-compose-only/%s' % common.class_key(c), e2.compose_only_unit(c), replay=replay_for(c), clause='K6',
                              functions=['%s.compose' % c.__name__, 'spec.%s' % c.__name__]))
    uncovered = ['no specification function written yet (K6 not stated; K3 is covered by C01): ' +
                 ', '.join(sorted(common.class_key(c) for c in without))]
    skipped = [common.class_key(c) for c in e1.binary_classes() if c.__module__.startswith(tuple(modules)) and c not in classes]
    if skipped:
        uncovered.append('outside the E2 exploration (see checks/classes.json and known_findings.json): ' + ', '.join(sorted(skipped)))
    return units, uncovered


def replay_for(cls):
    def replay(inputs):
        """K6 counterexample: the composed bytes of the rebuilt object, shown next to the specification's expectation"""
        try:
            o = rebuild.value(inputs.get('object'))
            wire = bytes(o.compose())
        except Exception as ex:
            return dict(reproduced=False, error=repr(ex))
        want = inputs.get('expected_wire')
        return dict(reproduced=True, call='%r.compose()' % (o,), observed=wire.hex(),
                    expected='the encoding prescribed by the specification function spec.%s (see the failed obligation)' % cls.__name__,
                    key='layout differs')
    return replay
