# ground units: the numeric values of the enumerations defined in the repository against spec/tables.py (by member name)
import importlib

from pyvc import vc
from pyvc.runner import Unit


def table_unit(module, enum_name):
    from spec.tables import TABLES

    def compare():
        cls = getattr(importlib.import_module(module), enum_name)
        table = TABLES[enum_name]
        wrong, unlisted = [], []
        for m in cls:
            v = m.value if isinstance(m.value, int) else getattr(m.value, 'code', m.value)
            if m.name not in table:
                unlisted.append(m.name)
            elif table[m.name] != v:
                wrong.append((m.name, v, table[m.name]))
        return cls, wrong, unlisted

    def run():
        res = vc.UnitResult(enum_name)
        res.paths = 1
        cls, wrong, unlisted = compare()
        res.obligations.append(dict(name='%s: every member listed in the specification table has the value the specification assigns' % enum_name,
                                    kind='ground', status='proved' if not wrong else 'failed',
                                    detail=dict(inputs=dict(members=['%s = %s, specification %s' % w for w in wrong])) if wrong else None,
                                    where=None, seconds=0))
        if unlisted:
            res.extra['unlisted_members'] = unlisted
        return res

    def replay(inputs):
        cls, wrong, unlisted = compare()
        if wrong:
            n, v, want = wrong[0]
            return dict(reproduced=True, call='%s.%s.value' % (enum_name, n), expected=want, observed=v, key='enum value')
        return dict(reproduced=False)
    return Unit('table/%s' % enum_name, run, replay=replay, search=lambda seed, hints=(): replay({}), clause='enumeration values',
                backend='native-ground', functions=['%s.%s' % (module, enum_name)])


def units(pairs):
    return [table_unit(m, n) for m, n in pairs]


TLS = [('cryptoparser.tls.subprotocol', n) for n in ('TlsContentType', 'TlsAlertLevel', 'TlsAlertDescription', 'TlsChangeCipherSpecType',
                                                       'TlsHandshakeType', 'TlsECCurveType', 'TlsClientCertificateType', 'SslMessageType',
                                                       'SslCertificateType', 'SslAuthenticationType', 'SslErrorType')] + \
      [('cryptoparser.tls.extension', 'TlsServerNameType'), ('cryptoparser.tls.extension', 'TlsCertificateStatusType'),
       ('cryptoparser.common.x509', 'CtVersion')]
SSH = [('cryptoparser.ssh.subprotocol', 'SshMessageCode'), ('cryptoparser.ssh.subprotocol', 'SshReasonCode'),
       ('cryptoparser.ssh.key', 'SshCertType'), ('cryptoparser.ssh.key', 'SshCertExtensionName')]
DNS = [('cryptoparser.dnsrec.record', 'DnsSecFlag'), ('cryptoparser.dnsrec.record', 'DnsSecProtocol')]
OPP = [('cryptoparser.tls.openvpn', 'OpenVpnOpCode'), ('cryptoparser.tls.mysql', 'MySQLVersion'), ('cryptoparser.tls.mysql', 'MySQLCapability'),
       ('cryptoparser.tls.mysql', 'MySQLStatusFlag'), ('cryptoparser.tls.rdp', 'COTPType'), ('cryptoparser.tls.rdp', 'RDPPacketType'),
       ('cryptoparser.tls.rdp', 'RDPProtocol'), ('cryptoparser.tls.rdp', 'RDPNegotiationRequestFlags'),
       ('cryptoparser.tls.rdp', 'RDPNegotiationResponseFlags')]
