# C11 -- integer, flag, mpint and timestamp primitives are exact and never truncate
#
# Units:
#   refine/*   the contract (specification function) of a primitive refines its real body: equal outcome class,
#              equal result, equal final state, for all inputs (loop contracts discharge the symbolic-length cases)
#   prop/*     property statements over the public wrappers, callees applied by contract
#   canary/*   deliberately false obligations that must fail (vacuity guard)
import random

import z3

from cryptodatahub.common.exception import InvalidValue
from cryptoparser.common.exception import NotEnoughData
from cryptoparser.common.parse import ComposerBinary, ParserBinary, ByteOrder

from pyvc import values as V, engine as E, interp as I, ops, vc, spec as S, models, loops  # noqa: F401
from pyvc.runner import Unit
from pyvc.values import SInt, SObj, SSeq
from contracts import common_parse as CP
from checks import common

SIZES = (1, 2, 3, 4, 8)
TRUSTED_BASE = common.TRUSTED_BASE
ASSUMPTIONS = common.ASSUMPTIONS + [
    'ByteOrder.NATIVE ("=") is little-endian on the verification host',
]
UNCOVERED = []
BOUNDED = []


def sym_composer(P, order):
    comp0, facts = V.base_seq('composed')
    for f in facts:
        P.assume(f)
    P.inputs['composed_before'] = comp0
    return SObj(ComposerBinary, dict(_composed=comp0, byte_order=order)), comp0


def sym_parser(P, order, prefix='p'):
    p, facts = V.base_seq(prefix)
    for f in facts:
        P.assume(f)
    pl = z3.Int(prefix + '_parsed_length')
    P.assume(z3.And(pl >= 0, pl <= p.n))
    P.inputs['parsable'] = p
    P.inputs['parsed_length'] = SInt(pl)
    o = SObj(ParserBinary, dict(_parsable=p, _parsed_length=ops.wrap_int(pl), _parsed_values={}, byte_order=order))
    return o, p, pl


# ------------------------------------------------------------------------------------------------ refinement units
def refine_compose(size, order, symbolic_len, wrong_spec=False):
    fn = ComposerBinary._compose_numeric_array

    def thunk():
        P = E.cur()
        c, comp0 = sym_composer(P, order)
        if symbolic_len:
            vals, facts = V.base_seq('values', 'list', byte_valued=False)
            for f in facts:
                P.assume(f)
        else:
            vals = [SInt(z3.Int('v0')), SInt(z3.Int('v1'))]
        P.inputs['values'] = vals
        c1, c2 = vc.clone(c), vc.clone(c)
        got = common.run_body(fn, [c1, vc.clone(vals), size])
        want = vc.outcome_of(lambda: CP.spec_compose_numeric_array(c2, vc.clone(vals), size if not wrong_spec else 4))
        vc.oblige_same_outcome(P, 'outcome', got, want)
        vc.oblige_equal(P, 'self._composed', c1.f['_composed'], c2.f['_composed'])
    return lambda: vc.run_unit('refine', thunk)


def replay_compose(size, order):
    def replay(inputs):
        vals = inputs.get('values')
        if isinstance(vals, dict):
            vals = vals.get('items')
        if not isinstance(vals, list) or not all(isinstance(v, int) for v in vals):
            return dict(reproduced=False)
        return native_compose_oracle(vals, size, order)
    return replay


def native_compose_oracle(vals, size, order):
    c = ComposerBinary(byte_order=order)
    little = order in (ByteOrder.LITTLE_ENDIAN, ByteOrder.NATIVE)
    ok_all = all(0 <= v < 256 ** size for v in vals)
    try:
        c.compose_numeric_array(vals, size)
        got = bytes(c.composed)
        if not ok_all:
            return dict(reproduced=True, call='ComposerBinary(byte_order=%s).compose_numeric_array(%r, %d)' % (order, vals, size),
                        expected='InvalidValue (a value does not fit %d bytes)' % size, observed=got.hex())
        want = b''.join(v.to_bytes(size, 'little' if little else 'big') for v in vals)
        if got != want:
            return dict(reproduced=True, call='compose_numeric_array(%r, %d) %s' % (vals, size, order), expected=want.hex(), observed=got.hex())
    except InvalidValue:
        if ok_all:
            return dict(reproduced=True, call='compose_numeric_array(%r, %d) %s' % (vals, size, order), expected='bytes', observed='InvalidValue')
    except Exception as e:   # any other exception type is not what the property allows
        return dict(reproduced=True, call='compose_numeric_array(%r, %d) %s' % (vals, size, order), expected='bytes or InvalidValue', observed=repr(e))
    return dict(reproduced=False)


def search_compose(size, order):
    def search(seed):
        rnd = random.Random(seed)
        cands = [0, 1, 255, 256, 65535, 65536, 2 ** 24 - 1, 2 ** 24, 2 ** 24 + 1, 2 ** 32 - 1, 2 ** 32, 2 ** 64 - 1, 2 ** 64, -1,
                 256 ** size - 1, 256 ** size, 256 ** size + 1]
        cands += [rnd.randrange(0, 256 ** size) for _ in range(200)] + [rnd.randrange(0, 2 ** 70) for _ in range(50)]
        for v in cands:
            for vals in ([v], [1, v]):
                w = native_compose_oracle(vals, size, order)
                if w.get('reproduced'):
                    return w
        return dict(reproduced=False)
    return search


def refine_parse(size, order, mode, conv=int, wrong_spec=False):
    fn = ParserBinary._parse_numeric_array

    def thunk():
        P = E.cur()
        o, p, pl = sym_parser(P, order)
        if mode == 'sym':
            num = z3.Int('item_num')
            P.inputs['item_num'] = SInt(num)
            item_num = SInt(num)
        else:
            item_num = mode
        o1, o2 = vc.clone(o), vc.clone(o)
        got = common.run_body(fn, [o1, 'x', item_num, size, conv])
        want = vc.outcome_of(lambda: CP.spec_parse_numeric_array(o2, 'x', item_num, size if not wrong_spec else 1, conv))
        vc.oblige_same_outcome(P, 'outcome', got, want)
        vc.oblige_equal(P, 'parser state', o1.f, o2.f)
    return lambda: vc.run_unit('refine', thunk)


def native_parse_oracle(data, pl_unused, size, order, num):
    little = order in (ByteOrder.LITTLE_ENDIAN, ByteOrder.NATIVE)
    call = 'ParserBinary(%r, byte_order=%s).parse_numeric_array("x", %d, %d)' % (data, order, num, size)
    try:
        p = ParserBinary(data, byte_order=order)
        p.parse_numeric_array('x', num, size)
        if num * size > len(data):
            return dict(reproduced=True, call=call, expected='NotEnoughData', observed=repr(p['x']))
        want = [int.from_bytes(data[k * size:(k + 1) * size], 'little' if little else 'big') for k in range(max(num, 0))]
        if p['x'] != want or p.parsed_length != num * size:
            return dict(reproduced=True, call=call, expected=repr((want, num * size)), observed=repr((p['x'], p.parsed_length)))
    except NotEnoughData as e:
        missing = num * size - len(data)
        if missing <= 0 or e.bytes_needed != missing:
            return dict(reproduced=True, call=call, expected='value' if missing <= 0 else 'NotEnoughData(%d)' % missing, observed=repr(e))
    except Exception as e:
        return dict(reproduced=True, call=call, expected='value or NotEnoughData', observed=repr(e))
    return dict(reproduced=False)


def search_parse(size, order):
    def search(seed):
        rnd = random.Random(seed)
        for num in (1, 2, 0, 3):
            for ln in range(0, num * size + 2):
                for _ in range(6):
                    data = bytes(rnd.choice((0, 1, 0x7f, 0x80, 0xff, rnd.randrange(256))) for _ in range(ln))
                    w = native_parse_oracle(data, 0, size, order, num)
                    if w.get('reproduced'):
                        return w
        return dict(reproduced=False)
    return search


# ------------------------------------------------------------------------------------------------ property units
def prop_compose_numeric(size, order):
    """compose_numeric(v, size): bytes are the positional digits of v in the chosen order; out of range is rejected"""
    def thunk():
        P = E.cur()
        c, comp0 = sym_composer(P, order)
        v = z3.Int('v')
        P.inputs['values'] = [SInt(v)]
        got = vc.outcome_of(lambda: I.call(I.getattr_(c, 'compose_numeric'), [SInt(v), size], {}))
        big = order in (ByteOrder.BIG_ENDIAN, ByteOrder.NETWORK)
        S.lemma_quot(P, v, size)
        if got.kind == 'ret':
            out = ops.as_seq(c.f['_composed'])
            P.oblige('accepted value fits the width', z3.And(v >= 0, v < 256 ** size))
            P.oblige('length grows by width', out.n == comp0.n + size)
            for k in range(size):
                weight = 256 ** (size - 1 - k) if big else 256 ** k
                P.oblige('byte %d is digit of weight 256^%d' % (k, (size - 1 - k) if big else k),
                         out.at(comp0.n + k) == (v / weight) % 256)
            j = V.fresh_int('j')
            P.oblige('earlier output untouched', z3.Implies(z3.And(j >= 0, j < comp0.n), out.at(j) == comp0.at(j)))
        else:
            P.oblige('only InvalidValue is raised', z3.BoolVal(got.value.cls is InvalidValue))
            P.oblige('rejected only when the value does not fit', z3.Not(z3.And(v >= 0, v < 256 ** size)))
            vc.oblige_equal(P, 'composer unchanged on rejection', c.f['_composed'], comp0)
    return lambda: vc.run_unit('prop', thunk)


def prop_parse_numeric(size, order):
    def thunk():
        P = E.cur()
        o, p, pl = sym_parser(P, order)
        got = vc.outcome_of(lambda: I.call(I.getattr_(o, 'parse_numeric'), ['x', size], {}))
        big = order in (ByteOrder.BIG_ENDIAN, ByteOrder.NETWORK)
        if got.kind == 'ret':
            P.oblige('enough bytes were present', pl + size <= p.n)
            val = z3.IntVal(0)
            for k in range(size):
                weight = 256 ** (size - 1 - k) if big else 256 ** k
                val = val + p.at(pl + k) * weight
            P.oblige('value is the positional sum', ops.as_int(o.f['_parsed_values']['x']) == val)
            P.oblige('consumed exactly the width', ops.as_int(o.f['_parsed_length']) == pl + size)
        else:
            P.oblige('only NotEnoughData is raised', z3.BoolVal(got.value.cls is NotEnoughData))
            P.oblige('raised only when bytes are missing', pl + size > p.n)
            P.oblige('missing count exact', ops.as_int(got.value.f['bytes_needed']) == pl + size - p.n)
            P.oblige('parser position unchanged', ops.as_int(o.f['_parsed_length']) == pl)
            P.oblige('no value recorded', z3.BoolVal('x' not in o.f['_parsed_values']))
    return lambda: vc.run_unit('prop', thunk)


def prop_roundtrip_numeric(size, order):
    def thunk():
        P = E.cur()
        v = z3.Int('v')
        P.assume(z3.And(v >= 0, v < 256 ** size))
        rest, facts = V.base_seq('rest')
        for f in facts:
            P.assume(f)
        P.inputs['values'] = [SInt(v)]
        c = SObj(ComposerBinary, dict(_composed=b'', byte_order=order))
        I.call(I.getattr_(c, 'compose_numeric'), [SInt(v), size], {})
        wire = ops.as_seq(c.f['_composed'])
        buf = V.concat(wire, rest, 'bytes')
        o = SObj(ParserBinary, dict(_parsable=buf, _parsed_length=0, _parsed_values={}, byte_order=order))
        I.call(I.getattr_(o, 'parse_numeric'), ['x', size], {})
        P.oblige('parse(compose(v)) == v', ops.as_int(o.f['_parsed_values']['x']) == v)
        P.oblige('consumed == composed length', ops.as_int(o.f['_parsed_length']) == wire.n)
    return lambda: vc.run_unit('prop', thunk)


def numeric_units():
    """contract refinement of the two numeric array primitives (all widths and byte orders) - also used as foundation
    units by every check whose exploration applies these contracts"""
    out = []
    for size in SIZES:
        for order in ByteOrder:
            tag = '%d-%s' % (size, order.name)
            for sl in (False, True):
                out.append(Unit('refine/_compose_numeric_array/%s/%s' % (tag, 'symbolic-length' if sl else 'two-values'),
                                refine_compose(size, order, sl), level='property', clause='contract refinement',
                                replay=replay_compose(size, order), search=search_compose(size, order),
                                functions=['ComposerBinary._compose_numeric_array']))
            for mode in (1, 2, 'sym'):
                out.append(Unit('refine/_parse_numeric_array/%s/item_num=%s' % (tag, mode),
                                refine_parse(size, order, mode), level='property', clause='contract refinement',
                                search=search_parse(size, order), functions=['ParserBinary._parse_numeric_array']))
    return out


def units(tier, seed):
    CP.register()
    common.setup()
    out = []
    for size in SIZES:
        for order in ByteOrder:
            tag = '%d-%s' % (size, order.name)
            fnames = ['ComposerBinary._compose_numeric_array']
            for sl in (False, True):
                out.append(Unit('refine/_compose_numeric_array/%s/%s' % (tag, 'symbolic-length' if sl else 'two-values'),
                                refine_compose(size, order, sl), level='property', clause='C11 integers',
                                replay=replay_compose(size, order), search=search_compose(size, order), functions=fnames))
            for mode in (1, 2, 'sym'):
                out.append(Unit('refine/_parse_numeric_array/%s/item_num=%s' % (tag, mode),
                                refine_parse(size, order, mode), level='property', clause='C11 integers',
                                search=search_parse(size, order), functions=['ParserBinary._parse_numeric_array']))
            out.append(Unit('prop/compose_numeric/%s' % tag, prop_compose_numeric(size, order), clause='C11 integers',
                            replay=replay_compose(size, order), search=search_compose(size, order),
                            functions=['ComposerBinary.compose_numeric'] + fnames))
            out.append(Unit('prop/parse_numeric/%s' % tag, prop_parse_numeric(size, order), clause='C11 integers',
                            search=search_parse(size, order),
                            functions=['ParserBinary.parse_numeric', 'ParserBinary._parse_numeric_array']))
            out.append(Unit('prop/roundtrip_numeric/%s' % tag, prop_roundtrip_numeric(size, order), clause='C11 integers',
                            search=search_compose(size, order),
                            functions=['ComposerBinary.compose_numeric', 'ParserBinary.parse_numeric']))
    # vacuity guards: the same harness with a deliberately wrong specification must fail
    out.append(Unit('canary/_compose_numeric_array wrong width', refine_compose(2, ByteOrder.NETWORK, True, wrong_spec=True),
                    expect_fail=True))
    out.append(Unit('canary/_parse_numeric_array wrong width', refine_parse(2, ByteOrder.NETWORK, 'sym', wrong_spec=True),
                    expect_fail=True))
    from checks import c11_more
    out.extend(c11_more.units(tier, seed))
    return out


from checks import c11_more as _m
FINDING_REPLAYS = {'KF-C11-negative-ssh-mpint': _m.w_negative_mpint}
