# shared pieces of the property checks
from pyvc import engine as E, interp as I, vc, models  # noqa: F401

TRUSTED_BASE = [
    'pyvc: AST symbolic interpreter of the supported Python subset (/verif/pyvc), not itself verified; guarded by '
    'canary obligations, native replay of every counterexample, the native search each unit carries, seeded changes / behaviour-preserving edits on scratch copies (DESIGN.md 0.A, 0.B) and the cvc5 second opinion of the thorough tier',
    'z3 5.1 (unsat answers trusted; rlimit budgets, no wall-clock timeouts)',
    'library models of pyvc/models.py (struct, six, attrs, enum, datetime, builtins) - listed under assumptions when used',
    'CPython 3.12 executes closed (all-concrete) calls natively: get_param(), _get_variants(), attr.fields, enum tables',
]
ASSUMPTIONS = [
    'Python ints are mathematical integers (true in CPython); byte strings are finite int sequences with 0 <= b < 256',
    'attrs-generated __init__/__eq__ follow the documented order: bind, convert, validate, __attrs_post_init__',
]


def setup():
    I.FORCE_SYMBOLIC_CONSTRUCT = True


def run_body(fn, args, kw=None):
    """outcome of the *real body* of fn (its own contract switched off, callee contracts applied)"""
    I.INLINE.add(fn)
    try:
        return vc.outcome_of(lambda: I.call_function(fn, args, kw or {}))
    finally:
        I.INLINE.discard(fn)


# ------------------------------------------------------------------------------------------------- class selection
import json
import os

HERE = os.path.dirname(os.path.dirname(os.path.abspath(__file__)))


def class_key(c):
    return '%s.%s' % (c.__module__.split('.', 1)[1], c.__name__)


def load_class_table():
    p = os.path.join(HERE, 'checks', 'classes.json')
    return json.load(open(p)) if os.path.exists(p) else {}


def select_classes(classes, tier, prop):
    """classes of this property's scope: all binary classes except those listed (with a reason) in checks/classes.json;
    entries may restrict a class to the thorough tier when its exploration is slow"""
    table = load_class_table()
    out = []
    for c in classes:
        ent = table.get(class_key(c), {})
        if prop in ent.get('skip', {}) or '*' in ent.get('skip', {}):
            continue
        if tier == 'quick' and (prop in ent.get('thorough_only', []) or '*' in ent.get('thorough_only', [])):
            continue
        out.append(c)
    return out


def uncovered_report(all_classes, selected):
    table = load_class_table()
    sel = set(selected)
    out = []
    for c in all_classes:
        if c not in sel:
            ent = table.get(class_key(c), {})
            reasons = ent.get('skip', {})
            out.append('%s: %s' % (class_key(c), '; '.join('%s: %s' % kv for kv in reasons.items()) or 'thorough tier only'))
    from checks import census
    text = [c for c in census.concrete_parsables() if census.is_text(c)]
    out.append('text-layer classes (not covered by this proof): %d classes: %s' % (len(text), ', '.join(sorted(class_key(c) for c in text))))
    return out


_SAMPLES = None


def samples(cls):
    """byte strings that the class accepts, harvested from the repository's own default constructors where they exist
    (only used to seed the native witness search; never part of a proof)"""
    out = []
    try:
        obj = cls()
        out.append(bytes(obj.compose()))
    except Exception:
        pass
    return out
