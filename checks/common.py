# shared pieces of the property checks
from pyvc import engine as E, interp as I, vc, models  # noqa: F401

TRUSTED_BASE = [
    'pyvc: AST symbolic interpreter of the supported Python subset (/verif/pyvc), not itself verified; guarded by '
    'canary obligations, native replay of every counterexample and the CPython cross-check of the thorough tier',
    'z3 5.1 (unsat answers trusted; rlimit budgets, no wall-clock timeouts)',
    'library models of pyvc/models.py (struct, six, attrs, enum, datetime, builtins) - listed under assumptions when used',
    'CPython 3.12 executes closed (all-concrete) calls natively: get_param(), _get_variants(), attr.fields, enum tables',
]
ASSUMPTIONS = [
    'Python ints are mathematical integers (true in CPython); byte strings are finite int sequences with 0 <= b < 256',
    'attrs-generated __init__/__eq__ follow the documented order: bind, convert, validate, __attrs_post_init__',
]


def setup():
    I.FORCE_SYMBOLIC_CONSTRUCT = True


def run_body(fn, args, kw=None):
    """outcome of the *real body* of fn (its own contract switched off, callee contracts applied)"""
    I.INLINE.add(fn)
    try:
        return vc.outcome_of(lambda: I.call_function(fn, args, kw or {}))
    finally:
        I.INLINE.discard(fn)
