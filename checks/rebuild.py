# rebuilds real objects from the concretized counter-model of a symbolic object (for native replay)
import datetime
import enum
import importlib

import attr

from checks import census

_CLASSES = None


def class_by_name(name):
    global _CLASSES
    if _CLASSES is None:
        _CLASSES = {}
        for m in census.all_modules():
            for k, v in vars(m).items():
                if isinstance(v, type):
                    _CLASSES.setdefault(k, v)
    return _CLASSES.get(name)


class CannotRebuild(Exception):
    pass


def value(desc, hint_cls=None):
    if isinstance(desc, dict):
        if 'hex' in desc and 'kind' in desc:
            b = bytes.fromhex(desc['hex'])
            return bytearray(b) if desc['kind'] == 'bytearray' else b
        if 'kind' in desc and 'items' in desc:
            return [value(x) for x in desc['items']]
        if 'enum' in desc:
            cls = class_by_name(desc['enum'])
            if cls is None or not isinstance(desc.get('member'), str):
                raise CannotRebuild('enum %r' % desc)
            return cls[desc['member']]
        if 'flags' in desc:
            cls = class_by_name(desc['flags'])
            return {cls[m] for m in desc['members']}
        if 'str' in desc:
            inner = desc['str']
            return bytes.fromhex(inner['hex']).decode('ascii', 'replace') if isinstance(inner, dict) and 'hex' in inner else ''
        if 'datetime' in desc:
            try:
                tz = datetime.timezone(datetime.timedelta(seconds=desc.get('utcoffset') or 0)) if desc.get('aware') else None
                base = datetime.datetime(1970, 1, 1, tzinfo=datetime.timezone.utc) + datetime.timedelta(
                    seconds=desc['datetime'], microseconds=desc.get('micros') or 0)
                return base.astimezone(tz) if tz is not None else base.replace(tzinfo=None)
            except (OverflowError, ValueError, TypeError):
                raise CannotRebuild('datetime %r' % desc)
        if 'cls' in desc:
            return obj(desc)
        raise CannotRebuild(repr(desc)[:80])
    if isinstance(desc, list):
        return [value(x) for x in desc]
    return desc


def obj(desc):
    from cryptoparser.common.base import ArrayBase
    cls = class_by_name(desc['cls'])
    if cls is None:
        raise CannotRebuild('class %s' % desc['cls'])
    f = desc['fields']
    if issubclass(cls, ArrayBase):
        items = f.get('_items')
        items = value(items) if items is not None else []
        return cls(coded_items(cls, items))
    if cls is datetime.datetime:
        raise CannotRebuild('datetime')
    if not attr.has(cls):
        raise CannotRebuild('non-attrs %s' % cls.__name__)
    kw = {}
    for a in attr.fields(cls):
        if a.init and a.name in f:
            kw[getattr(a, 'alias', a.name.lstrip('_'))] = value(f[a.name])
    return cls(**kw)


def coded_items(vcls, items):
    """ints standing for coded items -> members / fallback objects"""
    param = vcls.get_param()
    ic, fb = getattr(param, 'item_class', None), getattr(param, 'fallback_class', None)
    if ic is None or not all(isinstance(x, int) for x in items):
        return items
    try:
        ecls = ic.get_enum_class()
    except Exception:
        return items
    out = []
    for code in items:
        for m in ecls:
            if m.value.code == code:
                out.append(m)
                break
        else:
            if fb is None:
                raise CannotRebuild('unknown code without fallback')
            out.append(fb(code))
    return out
