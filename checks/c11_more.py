# C11, second part: timestamps and flag sets (mpints: see the bounded units at the end)
import enum
import os
import random

import z3

from cryptodatahub.common.exception import InvalidValue
from cryptoparser.common.parse import ComposerBinary, ParserBinary, ByteOrder

from pyvc import values as V, engine as E, interp as I, ops, vc, spec as S
from pyvc.runner import Unit
from pyvc.values import SInt, SObj, SDateTime, SFlags
from spec import wire as W
from checks import common, e1


def composer(order=ByteOrder.NETWORK):
    return SObj(ComposerBinary, dict(_composed=b'', byte_order=order))


def parser(buf, order=ByteOrder.NETWORK):
    return SObj(ParserBinary, dict(_parsable=buf, _parsed_length=0, _parsed_values={}, byte_order=order))


# ------------------------------------------------------------------------------------------------ timestamps
def ts_roundtrip(item_size, ms):
    def thunk():
        P = E.cur()
        secs, m = z3.Int('secs'), z3.Int('millis')
        P.assume(z3.And(secs >= 0, secs <= 253402300799))            # every instant datetime can hold: 1970 .. 9999-12-31 23:59:59
        P.assume(z3.And(m >= 0, m < 1000) if ms else m == 0)
        stamp = secs * 1000 + m if ms else secs
        P.assume(stamp < 256 ** item_size - 1)                       # fits the field and is not the 'forever' sentinel
        P.inputs.update(seconds=SInt(secs), milliseconds=SInt(m))
        aware = P.choose('aware datetime')
        off = None
        if aware:
            off = z3.Int('utcoffset')                                # any time zone: the instant is what is encoded
            P.assume(z3.And(off > -86400, off < 86400))
            P.inputs['utcoffset'] = SInt(off)
        t = SDateTime(secs, m * 1000, aware=aware, off=off)
        c = composer()
        out = vc.outcome_of(lambda: I.call(I.getattr_(c, 'compose_timestamp'), [t], dict(milliseconds=ms, item_size=item_size)))
        if out.kind == 'raise':
            e1.record_path_fact(P, 'an instant that fits the field is composed (got %s)' % out.value.cls.__name__, False)
            return
        wire = ops.as_seq(c.f['_composed'])
        P.oblige('the bytes are the big-endian count of %s since the epoch' % ('milliseconds' if ms else 'seconds'),
                 z3.And(wire.n == item_size, S.dec(wire.at, 0, item_size, '!') == stamp))
        rest, facts = V.base_seq('rest')
        for f in facts:
            P.assume(f)
        p = parser(V.concat(wire, rest, 'bytes'))
        I.call(I.getattr_(p, 'parse_timestamp'), ['t'], dict(milliseconds=ms, item_size=item_size))
        back = p.f['_parsed_values']['t']
        e1.record_path_fact(P, 'the parsed value is an instant (not the sentinel)', isinstance(back, SDateTime))
        if isinstance(back, SDateTime):
            P.oblige('parse(compose(t)) is the same instant', z3.And(back.secs == secs, back.micros == m * 1000))
        P.oblige('the field width is consumed', ops.as_int(p.f['_parsed_length']) == item_size)
    return lambda: (e1.setup(), vc.run_unit('timestamp', thunk))[1]


def ts_sentinel(item_size, ms):
    def thunk():
        P = E.cur()
        c = composer()
        I.call(I.getattr_(c, 'compose_timestamp'), [None], dict(milliseconds=ms, item_size=item_size))
        wire = ops.as_seq(c.f['_composed'])
        P.oblige('"forever" is the all-ones value of the field', z3.And(wire.n == item_size, *[wire.at(k) == 255 for k in range(item_size)]))
        p = parser(wire.copy('bytes'))
        I.call(I.getattr_(p, 'parse_timestamp'), ['t'], dict(milliseconds=ms, item_size=item_size))
        e1.record_path_fact(P, 'the all-ones value parses back to "forever" (None)', p.f['_parsed_values']['t'] is None)
    return lambda: (e1.setup(), vc.run_unit('sentinel', thunk))[1]


def ts_search(item_size, ms):
    def search(seed, hints=()):
        import datetime
        import time
        import dateutil.tz
        rnd = random.Random(seed)
        old = os.environ.get('TZ')
        try:
            for tz in ('UTC', 'Europe/Budapest', 'America/New_York', 'Asia/Kolkata', 'Australia/Lord_Howe', 'Europe/Moscow', 'Pacific/Apia'):
                os.environ['TZ'] = tz
                time.tzset()
                for base in [0, 1, 86399, 1625140800, 1616893200, 1635642000, 2 ** 31 - 1, 2 ** 31, 2 ** 32 - 2, 2 ** 32, 2 ** 32 + 1,
                             0x1122334455, 253402300799] + [rnd.randrange(0, 2 ** 32 - 1) for _ in range(20)] + \
                        [rnd.randrange(2 ** 32, 253402300799) for _ in range(10)]:
                    m = rnd.randrange(1000) if ms else 0
                    stamp = base * 1000 + m if ms else base
                    if stamp >= 256 ** item_size - 1:
                        continue
                    for aware in (False, True, 'offset'):
                        t = datetime.datetime.fromtimestamp(base, dateutil.tz.UTC) + datetime.timedelta(milliseconds=m)
                        if not aware:
                            t = t.replace(tzinfo=None)
                        elif aware == 'offset':
                            # the same instant expressed in a zone with a non-zero UTC offset
                            t = t.astimezone(datetime.timezone(datetime.timedelta(minutes=rnd.choice((-570, -300, 60, 345, 840)))))
                        call = 'TZ=%s compose_timestamp(%r, milliseconds=%s, item_size=%d)' % (tz, t, ms, item_size)
                        try:
                            c = ComposerBinary()
                            c.compose_timestamp(t, milliseconds=ms, item_size=item_size)
                            wire = bytes(c.composed)
                        except Exception as ex:
                            return dict(reproduced=True, call=call, expected=stamp.to_bytes(item_size, 'big').hex(), observed=repr(ex)[:100])
                        if wire != stamp.to_bytes(item_size, 'big'):
                            return dict(reproduced=True, call=call, expected=stamp.to_bytes(item_size, 'big').hex(), observed=wire.hex())
                        p = ParserBinary(wire)
                        p.parse_timestamp('t', milliseconds=ms, item_size=item_size)
                        want = datetime.datetime.fromtimestamp(base, dateutil.tz.UTC) + datetime.timedelta(milliseconds=m)
                        if p['t'] != want:
                            return dict(reproduced=True, call='parse_timestamp of ' + wire.hex(), expected=repr(want), observed=repr(p['t']))
                c = ComposerBinary()
                c.compose_timestamp(None, milliseconds=ms, item_size=item_size)
                p = ParserBinary(bytes(c.composed))
                p.parse_timestamp('t', milliseconds=ms, item_size=item_size)
                if bytes(c.composed) != b'\xff' * item_size or p['t'] is not None:
                    return dict(reproduced=True, call='compose_timestamp(None, milliseconds=%s, item_size=%d) and back' % (ms, item_size),
                                expected='ff.. and None', observed='%s -> %r' % (bytes(c.composed).hex(), p['t']))
        finally:
            if old is None:
                os.environ.pop('TZ', None)
            else:
                os.environ['TZ'] = old
            time.tzset()
        return dict(reproduced=False)
    return search


# ------------------------------------------------------------------------------------------------ flag sets
def flag_enums():
    from cryptoparser.tls.mysql import MySQLCapability, MySQLStatusFlag
    from cryptoparser.tls.rdp import RDPProtocol, RDPNegotiationRequestFlags, RDPNegotiationResponseFlags
    from cryptoparser.dnsrec.record import DnsSecFlag
    return [(MySQLCapability, 2, 0, ByteOrder.LITTLE_ENDIAN), (MySQLCapability, 2, 16, ByteOrder.LITTLE_ENDIAN),
            (MySQLCapability, 4, 0, ByteOrder.LITTLE_ENDIAN), (MySQLStatusFlag, 2, 0, ByteOrder.LITTLE_ENDIAN),
            (RDPProtocol, 4, 0, ByteOrder.LITTLE_ENDIAN), (RDPNegotiationRequestFlags, 1, 0, ByteOrder.LITTLE_ENDIAN),
            (RDPNegotiationResponseFlags, 1, 0, ByteOrder.LITTLE_ENDIAN), (DnsSecFlag, 2, 0, ByteOrder.NETWORK)]


def flags_unit(ecls, size, shift, order):
    def thunk():
        P = E.cur()
        ms = list(ecls)
        fl = SFlags(ecls, {m: V.fresh_bool('in_' + m.name) for m in ms})
        P.inputs['flags'] = fl
        c = composer(order)
        out = vc.outcome_of(lambda: I.call(I.getattr_(c, 'compose_numeric_flags'), [fl, size], dict(shift_right=shift)))
        want = W.flags_value(fl, shift)                              # OR of the members, written bit by bit
        if out.kind == 'raise':
            e1.record_path_fact(P, 'rejected only with InvalidValue', out.value.cls is InvalidValue)
            P.oblige('rejected only when the OR does not fit the width', z3.Not(z3.And(want >= 0, want < 256 ** size)))
            return
        wire = ops.as_seq(c.f['_composed'])
        P.oblige('composed value is the OR of the members', z3.And(wire.n == size, S.dec(wire.at, 0, size, order.value) == want))
        p = parser(wire.copy('bytes'), order)
        I.call(I.getattr_(p, 'parse_numeric_flags'), ['f', size, ecls], dict(shift_left=shift))
        back = p.f['_parsed_values']['f']
        if not isinstance(back, SFlags) and (not isinstance(back, (set, frozenset, list, tuple)) or any(V.is_symbolic(x) for x in back)):
            raise E.Unsupported('the parsed flag set is a %s with symbolic members (not a flag set the check can read)' % type(back).__name__)
        bits = back.bits if isinstance(back, SFlags) else {m: z3.BoolVal(m in back) for m in ms}
        value = want * (2 ** shift)
        for m in ms:
            mv = int(m.value)
            visible = mv & (((256 ** size) - 1) << shift)
            hit = W.flags_value({m: None} and [m], 0)                 # the member's own bits
            # parse returns exactly the members that share a bit with the value
            share = z3.Or(*[(value / (2 ** b)) % 2 == 1 for b in range(mv.bit_length()) if (mv >> b) & 1]) if mv else z3.BoolVal(False)
            P.oblige('member %s is reported iff one of its bits is set in the value' % m.name, bits.get(m, z3.BoolVal(False)) == share)
        single = all(int(m.value) and int(m.value) & (int(m.value) - 1) == 0 for m in ms) and len({int(m.value) for m in ms}) == len(ms)
        if single:
            for m in ms:
                if (int(m.value) >> shift) and (int(m.value) >> shift) < 256 ** size:
                    P.oblige('round trip: %s is in the parsed set iff it was in the composed set' % m.name, bits[m] == fl.bits[m])
    return lambda: (e1.setup(), vc.run_unit('flags', thunk))[1]


def flags_search(ecls, size, shift, order):
    def search(seed, hints=()):
        rnd = random.Random(seed)
        ms = list(ecls)
        for _ in range(200):
            sub = {m for m in ms if rnd.random() < 0.4}
            want = 0
            for m in sub:
                want |= int(m.value) >> shift
            call = 'compose_numeric_flags(%r, %d, shift_right=%d) %s' % (sorted(m.name for m in sub), size, shift, order.name)
            try:
                c = ComposerBinary(byte_order=order)
                c.compose_numeric_flags(sub, size, shift)
                wire = bytes(c.composed)
            except InvalidValue:
                if want < 256 ** size:
                    return dict(reproduced=True, call=call, expected='value %d' % want, observed='InvalidValue')
                continue
            little = order in (ByteOrder.LITTLE_ENDIAN, ByteOrder.NATIVE)
            if want >= 256 ** size or wire != want.to_bytes(size, 'little' if little else 'big'):
                return dict(reproduced=True, call=call, expected='%d' % want, observed=wire.hex())
            p = ParserBinary(wire, byte_order=order)
            p.parse_numeric_flags('f', size, ecls, shift)
            expect = {m for m in ms if int(m.value) & (want << shift)}
            if set(p['f']) != expect:
                return dict(reproduced=True, call='parse_numeric_flags of %s' % wire.hex(), expected=repr(sorted(m.name for m in expect)),
                            observed=repr(sorted(m.name for m in p['f'])))
        return dict(reproduced=False)
    return search


def native_flags_unit(ecls, size, shift, order):
    def run():
        res = vc.UnitResult('flags-native')
        w = flags_search(ecls, size, shift, order)(12345)
        res.paths = 1
        res.obligations.append(dict(name='200 random subsets of %s compose to the OR of their members and parse back' % ecls.__name__,
                                    kind='sampled', status='failed' if w.get('reproduced') else 'proved',
                                    detail=dict(inputs=w) if w.get('reproduced') else None, where=None, seconds=0))
        res.extra['bounded'] = ['native sampling of 200 random subsets (not a proof)']
        return res
    return run


# ------------------------------------------------------------------------------------------------ mpints (bounded)
def ref_ssh_mpint(v):
    """RFC 4251 section 5: two's complement, big-endian, minimal length, zero is the empty string"""
    if v == 0:
        return b'\x00\x00\x00\x00'
    n = 1
    while True:
        try:
            b = v.to_bytes(n, 'big', signed=True)
            break
        except OverflowError:
            n += 1
    return len(b).to_bytes(4, 'big') + b


def mpint_values(seed):
    rnd = random.Random(seed)
    vals = {0, 1, -1, 127, 128, 255, 256, -128, -129, -255, -256}
    for k in list(range(0, 140)) + [255, 256, 257, 511, 512, 1023, 1024, 2047, 2048, 4095, 4096]:
        for d in (-1, 0, 1):
            vals.add((1 << k) + d)
            vals.add(-((1 << k) + d))
    for _ in range(200):
        vals.add(rnd.getrandbits(rnd.randrange(1, 600)) * rnd.choice((1, -1)))
    return sorted(vals)


def ssh_mpint_violation(seed, negative_known=True):
    for v in mpint_values(seed):
        if v < 0 and negative_known and negative_region(v):
            continue
        call = 'compose_ssh_mpint(%s) [bit_length %d]' % (v if abs(v) < 10 ** 9 else hex(v)[:20] + '...', v.bit_length())
        try:
            c = ComposerBinary()
            c.compose_ssh_mpint(v)
            w = bytes(c.composed)
            p = ParserBinary(w + b'\xaa')
            p.parse_ssh_mpint('x')
        except Exception as ex:
            return dict(reproduced=True, call=call, expected='round trip', observed=repr(ex)[:100])
        if p['x'] != v or p.parsed_length != len(w):
            return dict(reproduced=True, call=call, expected='parse(compose(v)) == v', observed='%r (consumed %d of %d)' % (p['x'], p.parsed_length, len(w)))
        if v >= 0 and w != ref_ssh_mpint(v):
            return dict(reproduced=True, call=call, expected=ref_ssh_mpint(v).hex()[:40], observed=w.hex()[:40], key='not minimal')
    return dict(reproduced=False)


def negative_region(v):
    """known finding KF-C11-negative-ssh-mpint: negative values whose bit length is a positive multiple of 32"""
    return v < 0 and v.bit_length() > 0 and v.bit_length() % 32 == 0


def fixed_mpint_violation(seed):
    rnd = random.Random(seed)
    for L in (1, 2, 3, 4, 5, 7, 8, 16, 20, 32, 64):
        cands = [0, 1, 255, 256, 2 ** (8 * L) - 1, 2 ** (8 * L), 2 ** (8 * L) + 1, 2 ** (8 * L - 1), 2 ** (32 * ((L + 3) // 4)),
                 2 ** (32 * ((L + 3) // 4)) + 5] + [rnd.getrandbits(8 * L) for _ in range(20)] + [rnd.getrandbits(8 * L + 40) for _ in range(5)]
        for v in cands:
            call = 'compose_mpint(%s, %d)' % (hex(v)[:24], L)
            try:
                c = ComposerBinary()
                c.compose_mpint(v, L)
                w = bytes(c.composed)
            except InvalidValue:
                if v < 2 ** (8 * L):
                    return dict(reproduced=True, call=call, expected=v.to_bytes(L, 'big').hex()[:40], observed='InvalidValue')
                continue
            except Exception as ex:
                return dict(reproduced=True, call=call, expected='bytes or InvalidValue', observed=repr(ex)[:100])
            if v >= 2 ** (8 * L):
                return dict(reproduced=True, call=call, expected='InvalidValue (does not fit %d bytes)' % L, observed=w.hex()[:40], key='truncated')
            if w != v.to_bytes(L, 'big'):
                return dict(reproduced=True, call=call, expected=v.to_bytes(L, 'big').hex()[:40], observed=w.hex()[:40])
            p = ParserBinary(w)
            p.parse_mpint('x', L)
            if p['x'] != v:
                return dict(reproduced=True, call='parse_mpint of ' + w.hex()[:40], expected=str(v)[:30], observed=str(p['x'])[:30])
    return dict(reproduced=False)


def sampled_unit(name, fn):
    def run():
        res = vc.UnitResult(name)
        w = fn(20260928)
        res.paths = 1
        res.obligations.append(dict(name=name, kind='sampled', status='failed' if w.get('reproduced') else 'proved',
                                    detail=dict(inputs=w) if w.get('reproduced') else None, where=None, seconds=0))
        res.extra['bounded'] = ['native sampling against an independent reference encoder (boundary bit lengths 8k-1, 8k, 8k+1 up to 4096 bits, both signs); not a proof']
        return res
    return run


def w_negative_mpint():
    v = -((1 << 32) - 1)          # bit_length 32
    c = ComposerBinary()
    c.compose_ssh_mpint(v)
    p = ParserBinary(bytes(c.composed))
    p.parse_ssh_mpint('x')
    return dict(reproduced=p['x'] != v, observed='compose_ssh_mpint(%d) -> %s -> parses as %d' % (v, bytes(c.composed).hex(), p['x']))


def units(tier, seed):
    out = []
    out.append(Unit('bounded/mpint-native/ssh', sampled_unit('SSH mpints round-trip and are minimal for non-negative values (sampled)', ssh_mpint_violation),
                    search=lambda s, hints=(): ssh_mpint_violation(s), clause='C11 mpint (sampled)', backend='native-sampling',
                    functions=['ComposerBinary.compose_ssh_mpint', 'ParserBinary.parse_ssh_mpint']))
    out.append(Unit('bounded/mpint-native/fixed-length', sampled_unit('fixed-length mpints are exact and never truncated (sampled)', fixed_mpint_violation),
                    search=lambda s, hints=(): fixed_mpint_violation(s), clause='C11 mpint (sampled)', backend='native-sampling',
                    functions=['ComposerBinary.compose_mpint', 'ParserBinary.parse_mpint']))
    for size in (4, 8):
        for ms in (False, True):
            tag = '%d-bytes/%s' % (size, 'milliseconds' if ms else 'seconds')
            fns = ['ComposerBinary.compose_timestamp', 'ParserBinary.parse_timestamp']
            out.append(Unit('prop/timestamp-roundtrip/%s' % tag, ts_roundtrip(size, ms), search=ts_search(size, ms), clause='C11 timestamps', functions=fns))
            out.append(Unit('prop/timestamp-forever/%s' % tag, ts_sentinel(size, ms), search=ts_search(size, ms), clause='C11 timestamps', functions=fns))
    for ecls, size, shift, order in flag_enums():
        if len(list(ecls)) > 12:
            # too many members for the bit-level proof within the budget: sampled natively (a bounded stand-in, reported
            # as such and never counted among the discharged obligations)
            out.append(Unit('bounded/flags-native/%s/%d-bytes/shift-%d' % (ecls.__name__, size, shift),
                            native_flags_unit(ecls, size, shift, order), search=flags_search(ecls, size, shift, order),
                            clause='C11 flags (sampled)', backend='native-sampling'))
            continue
        out.append(Unit('prop/flags/%s/%d-bytes/shift-%d' % (ecls.__name__, size, shift), flags_unit(ecls, size, shift, order),
                        search=flags_search(ecls, size, shift, order), clause='C11 flags',
                        functions=['ComposerBinary.compose_numeric_flags', 'ParserBinary.parse_numeric_flags']))
    return out
