# Known-finding regions: for a genuine defect that is recorded (known_findings.json) rather than repaired, the region
# of inputs it concerns is excluded from the proof (the obligations are discharged outside the region) and its
# witness is replayed natively on every run: still failing -> "KNOWN-FINDING: ..." line, exit code unaffected.
# Regions are as narrow as the defect, so any other violation of the same clause is still reported.
import json
import os

import z3

from pyvc import values as V, engine as E, ops

HERE = os.path.dirname(os.path.dirname(os.path.abspath(__file__)))


def listed_regions():
    p = os.path.join(HERE, 'known_findings.json')
    if not os.path.exists(p):
        return set()
    return {f.get('region') for f in json.load(open(p)).get('findings', []) if f.get('region')}


def _is_none(v):
    return v is None


# region name -> (class names, predicate(obj) -> bool | z3 Bool  : True inside the region)
def _tpkt(o):
    return ops.as_int(o.f['version']) != 3


def _padding(o):
    return ops.as_int(o.f['length']) < 0


def _openvpn(o):
    ids = o.f.get('packet_id_array')
    n = len(ids) if isinstance(ids, (list, tuple)) else None
    return n == 0 and o.f.get('remote_session_id') is not None


def _rdp(o):
    from cryptoparser.tls.rdp import RDPProtocol
    p = o.f['protocol']
    if isinstance(p, V.SFlags):
        return p.bits[RDPProtocol.RDP]
    return RDPProtocol.RDP in p


def _unparsed(o):
    from cryptoparser.tls.extension import TlsExtensionType
    t = o.f['extension_type']
    return isinstance(t, TlsExtensionType) or (isinstance(t, V.SEnum) and t.cls is TlsExtensionType)


def _empty_label(o):
    labels = o.f.get('labels')
    if not isinstance(labels, (list, tuple)):
        return False
    conds = []
    for l in labels:
        if isinstance(l, V.SStr):
            conds.append(l.seq.n == 0)
        elif isinstance(l, str):
            if not l:
                return True
    return z3.Or(*conds) if conds else False


# classes whose parser returns naive datetimes (datetime.utcfromtimestamp); every other parser returns aware UTC values
PARSED_NAIVE = ('TlsHandshakeHelloRandom',)


def w_datetime_awareness():
    import datetime
    from cryptoparser.dnsrec.record import DnsRecordRrsig
    from cryptodatahub.dnsrec.algorithm import DnsRrType, DnsSecAlgorithm
    t = datetime.datetime(2021, 3, 4, 5, 6, 7)
    return _rt(DnsRecordRrsig(DnsRrType.A, DnsSecAlgorithm.RSASHA256, 0, 0, t, t, 0, 'a', b'\x02' * 4))


REGIONS = {
    'dns-name-empty-label': (('DnsNameUncompressed',), _empty_label, ('K3',)),
    'tpkt-version-not-3': (('TPKT',), _tpkt),
    'padding-negative-length': (('TlsExtensionPadding',), _padding),
    'openvpn-remote-session-id-without-acks': (('OpenVpnPacketAckV1', 'OpenVpnPacketControlV1', 'OpenVpnPacketHardResetServerV2'), _openvpn),
    'rdp-protocol-contains-RDP-0': (('RDPNegotiationRequest', 'RDPNegotiationResponse'), _rdp),
    'unparsed-extension-with-enum-type': (('TlsExtensionUnparsed',), _unparsed),
    'cotp-reference-order': (('COTPConnectionRequest', 'COTPConnectionConfirm'),
                             lambda o: ops.as_int(o.f['src_ref']) != ops.as_int(o.f['dst_ref']), ('K6',)),
    'mysql-handshake-v10-domain': (('MySQLHandshakeV10',), lambda o: True, ('K3',)),
    'hello-retry-request-type-6': (('TlsHandshakeHelloRetryRequest',), lambda o: True, ('K6',)),
    'ssh-cert-option-data-not-nested': (('SshCertExtensionForceCommand', 'SshCertExtensionSourceAddress'), lambda o: True, ('K6',)),
    'openvpn-tcp-wrapper-no-eq': (('OpenVpnPacketWrapperTcp',), lambda o: True, ('K3',)),
}


def whole_class_regions():
    listed = listed_regions()
    out = set()
    for name, ent in REGIONS.items():
        if name in listed and name in ('mysql-handshake-v10-domain', 'openvpn-tcp-wrapper-no-eq'):
            out.update(ent[0])
    return out


def exclude(P, obj, clause=None):
    """assume that obj lies outside every listed region that concerns its class (nested objects included); regions
    restricted to a clause (e.g. K6) are applied only when that clause is being stated"""
    listed = listed_regions()
    seen = set()

    def walk(o):
        if id(o) in seen:
            return
        seen.add(id(o))
        if isinstance(o, V.SObj) and clause is None and 'datetime-awareness' in listed:
            for v in o.f.values():
                if isinstance(v, V.SDateTime) and bool(v.aware) != (o.cls.__name__ not in PARSED_NAIVE):
                    raise E.PathEnd()           # listed finding: a datetime of the other kind than the parser returns
        if isinstance(o, V.SObj):
            for name, ent in REGIONS.items():
                classes, pred = ent[0], ent[1]
                only = ent[2] if len(ent) > 2 else None
                if (only is None) != (clause is None) or (only is not None and clause not in only):
                    continue
                if name in listed and o.cls.__name__ in classes:
                    r = pred(o)
                    if isinstance(r, bool):
                        if r:
                            raise E.PathEnd()
                    else:
                        P.assume(z3.Not(r))
            for v in o.f.values():
                walk(v)
        elif isinstance(o, (list, tuple)):
            for v in o:
                walk(v)
    walk(obj)


# ------------------------------------------------------------------------------------------------ native witnesses
def _rt(o):
    cls = type(o)
    wire = bytes(o.compose())
    try:
        o2, n = cls.parse_immutable(wire)
    except Exception as ex:
        return dict(reproduced=True, call='%s.parse_exact_size(%r.compose())' % (cls.__name__, o), observed=repr(ex)[:160])
    if n != len(wire) or o2 != o:
        return dict(reproduced=True, call='%s.parse_exact_size(%r.compose())' % (cls.__name__, o), observed='n=%d parsed=%r' % (n, o2))
    return dict(reproduced=False, observed='round trip holds')


def w_empty_label():
    from cryptoparser.dnsrec.record import DnsNameUncompressed
    return _rt(DnsNameUncompressed.convert('example.com.'))


def w_tpkt():
    from cryptoparser.tls.rdp import TPKT
    return _rt(TPKT(version=2, message=b'ab'))


def w_tpkt_prefix():
    from cryptoparser.tls.rdp import TPKT
    from cryptoparser.common.exception import NotEnoughData
    wire = bytes(TPKT(version=2, message=b'ab').compose())
    try:
        TPKT.parse_immutable(wire[:5])
    except NotEnoughData:
        return dict(reproduced=False, observed='NotEnoughData')
    except Exception as ex:
        return dict(reproduced=True, observed=repr(ex)[:120])
    return dict(reproduced=True, observed='prefix accepted')


def w_padding():
    from cryptoparser.tls.extension import TlsExtensionPadding
    return _rt(TlsExtensionPadding(length=-1))


def w_openvpn():
    from cryptoparser.tls.openvpn import OpenVpnPacketAckV1
    return _rt(OpenVpnPacketAckV1(session_id=1, remote_session_id=7, packet_id_array=[]))


def w_rdp():
    from cryptoparser.tls.rdp import RDPNegotiationRequest, RDPProtocol
    return _rt(RDPNegotiationRequest(flags=set(), protocol={RDPProtocol.RDP}))


def w_unparsed():
    from cryptoparser.tls.extension import TlsExtensionUnparsed, TlsExtensionType
    return _rt(TlsExtensionUnparsed(TlsExtensionType.SERVER_NAME, b'ab'))


def w_mysql():
    from cryptoparser.tls.mysql import MySQLHandshakeV10, MySQLVersion, MySQLCharacterSet
    return _rt(MySQLHandshakeV10(protocol_version=MySQLVersion.MYSQL_9, server_version='', connection_id=0, auth_plugin_data=b'',
                                 capabilities=set(), character_set=MySQLCharacterSet.BIG5, states=set()))


def w_openvpn_tcp():
    from cryptoparser.tls.openvpn import OpenVpnPacketWrapperTcp
    return _rt(OpenVpnPacketWrapperTcp(b'ab'))


def w_cert_option():
    import struct
    from cryptoparser.ssh.key import SshCertExtensionForceCommand, SshCertCriticalOptionVector
    st = lambda b: struct.pack('!I', len(b)) + b
    # the option as ssh-keygen writes it: string name, string data with data = string(command)
    openssh = st(b'force-command') + st(st(b'/bin/true'))
    got = bytes(SshCertExtensionForceCommand('/bin/true').compose())
    try:
        back = SshCertCriticalOptionVector.parse_exact_size(st(openssh))[0].command
    except Exception as ex:
        back = repr(ex)
    if got == openssh and back == '/bin/true':
        return dict(reproduced=False, observed='the value is a packed string inside the data field')
    return dict(reproduced=True, call="SshCertExtensionForceCommand('/bin/true').compose(); SshCertCriticalOptionVector.parse_exact_size(<the option as OpenSSH writes it>)[0].command",
                observed='%s; %r' % (got.hex(), back), expected='%s; %r' % (openssh.hex(), '/bin/true'))


def w_hrr():
    from cryptoparser.tls.subprotocol import TlsHandshakeHelloRetryRequest
    from cryptodatahub.tls.algorithm import TlsCipherSuite
    wire = bytes(TlsHandshakeHelloRetryRequest(cipher_suite=TlsCipherSuite.TLS_AES_128_GCM_SHA256).compose())
    if wire[0] == 2:
        return dict(reproduced=False, observed='msg_type server_hello(2)')
    return dict(reproduced=True, call='TlsHandshakeHelloRetryRequest(cipher_suite=TLS_AES_128_GCM_SHA256).compose()[0]',
                observed='0x%02x' % wire[0], expected='0x02 (RFC 8446 4.1.4: a HelloRetryRequest is a ServerHello with the special Random)')


def w_cotp():
    from cryptoparser.tls.rdp import COTPConnectionRequest
    wire = bytes(COTPConnectionRequest(src_ref=0x0102, dst_ref=0x0304, user_data=b'').compose())
    # ISO 8073 / X.224 13.3: LI, CR code, DST-REF, SRC-REF, class option
    if wire[2:4] == b'\x03\x04' and wire[4:6] == b'\x01\x02':
        return dict(reproduced=False, observed='DST-REF precedes SRC-REF')
    return dict(reproduced=True, call='COTPConnectionRequest(src_ref=0x0102, dst_ref=0x0304, user_data=b"").compose()',
                observed=wire.hex(), expected='06e0 0304 0102 00 (DST-REF first)')


WITNESSES = {
    'datetime-awareness': w_datetime_awareness,
    'dns-name-empty-label': w_empty_label,
    'cotp-reference-order': w_cotp,
    'hello-retry-request-type-6': w_hrr,
    'ssh-cert-option-data-not-nested': w_cert_option,
    'tpkt-version-not-3': w_tpkt,
    'tpkt-version-not-3/prefix': w_tpkt_prefix,
    'padding-negative-length': w_padding,
    'openvpn-remote-session-id-without-acks': w_openvpn,
    'rdp-protocol-contains-RDP-0': w_rdp,
    'unparsed-extension-with-enum-type': w_unparsed,
    'mysql-handshake-v10-domain': w_mysql,
    'openvpn-tcp-wrapper-no-eq': w_openvpn_tcp,
}


def finding_replays(prop):
    """id -> native replay for the findings of one property"""
    p = os.path.join(HERE, 'known_findings.json')
    out = {}
    if not os.path.exists(p):
        return out
    for f in json.load(open(p)).get('findings', []):
        if f['property'] == prop:
            w = WITNESSES.get(f.get('witness', f.get('region')))
            if w is not None:
                out[f['id']] = w
    return out
