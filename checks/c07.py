# C07 -- SSH banner, packets, key exchange messages and host keys follow the RFCs (partial: see UNCOVERED)
#
#   messages    K6 + K3 of the Diffie-Hellman (group) exchange init/request/group messages, NEWKEYS, UNIMPLEMENTED and the
#               name-list vectors against spec/ssh.py (message numbers from the specification's own table)
#   key blobs   compose() of the RSA / DSS / ECDSA / EdDSA host keys against the RFC 4253 6.6 / RFC 5656 3.1 / RFC 8709 4
#               layouts: which fields, in which order, each as string / mpint; the key object is a stub whose parameters are
#               symbolic, and the encoding of ONE mpint is abstracted (ComposerBinary.compose_ssh_mpint enters by the
#               contract "appends MP(value)", MP an uninterpreted function of the integer; C11 is about MP itself)
#   certs       K6 of the OpenSSH certificate parameter block (PROTOCOL.certkeys field order and encodings), compose direction
import z3

from pyvc import values as V, engine as E, interp as I, ops, vc
from pyvc.runner import Unit
from pyvc.values import SObj, SInt
from checks import common, e1, e2, k6family, regions

TRUSTED_BASE = common.TRUSTED_BASE
ASSUMPTIONS = common.ASSUMPTIONS + [
    'specification functions in /verif/spec/ssh.py are transcribed from RFC 4251 5, RFC 4253 6.6/7/8/11/12, RFC 4419 3/5, RFC 5656 3.1 and RFC 8709 4 from memory (no RFC text in the sandbox)',
    'host key blobs: the key object is a stub with symbolic parameters (the cryptodatahub PublicKey classes are outside the interpreter); compose_ssh_mpint is used by the contract "appends MP(value)" with MP uninterpreted - that MP is the canonical two\'s-complement mpint is C11 (sampled there)',
]
UNCOVERED = [
    'binary packet layer: the compose direction is covered (packet units: payload an arbitrary byte string); the round trip of whole SSH records (parse of the message variants incl. KEXINIT) exceeds the exploration budget',
    'KEXINIT is covered at the message level only (field order and framing with the name-lists used through their class contracts; K5 re-serialisation); the parse direction of DISCONNECT (utf-8 text), banner grammar (text layer), X.509 chains: K6 not stated; OpenSSH certificates: K6 of the parameter block only (checks/sshcert.py: compose direction, nested structures through their class contracts); K3 of the certificate classes is in the thorough tier of C01',
    'the parse direction of the host key blobs (external PublicKey objects)',
]
BOUNDED = ['name-lists with at most 1 name in the symbolic vector objects (the names themselves are unbounded text)']

MESSAGES = ('SshDHKeyExchangeInit', 'SshDHGroupExchangeInit', 'SshDHGroupExchangeRequest', 'SshDHGroupExchangeGroup', 'SshNewKeys',
            'SshUnimplementedMessage', 'SshKexAlgorithmVector', 'SshHostKeyAlgorithmVector', 'SshEncryptionAlgorithmVector',
            'SshMacAlgorithmVector', 'SshCompressionAlgorithmVector')


CERT_ELEMENTS = ('SshString', 'SshCertExtensionUnparsed', 'SshCertExtensionPermitX11Forwarding', 'SshCertExtensionPermitAgentForwarding',
                 'SshCertExtensionPermitPortForwarding', 'SshCertExtensionPermitPTY', 'SshCertExtensionPermitUserRC',
                 'SshCertExtensionForceCommand')

# ------------------------------------------------------------------------------------------------- mpint abstraction
def MP(P, v):
    """the byte string compose_ssh_mpint writes for the integer v: an uninterpreted function of v (same term, same bytes)"""
    memo = P.__dict__.setdefault('mp_memo', [])
    t = ops.as_int(v)
    for t0, s in memo:
        if t0.eq(t) or P.entails(t0 == t):
            return s
    s, facts = V.base_seq('mpint', 'bytes')
    for f in facts:
        P.assume(f)
    P.assume(s.n >= 4)                           # at least the uint32 length
    memo.append((t, s))
    return s


def spec_compose_ssh_mpint(self, value):
    P = E.cur()
    cur = ops.as_seq(self.f['_composed'])
    self.f['_composed'] = V.concat(cur, MP(P, value), 'bytearray')
    return None


class _Stub(object):
    pass


def key_blob_unit(cls, kind):
    def thunk():
        from cryptoparser.common.parse import ComposerBinary
        from cryptodatahub.common.algorithm import NamedGroup
        from spec import ssh as SS
        P = E.cur()
        algs = list(cls.get_host_key_algorithms())
        idx = z3.Int('host_key_algorithm')
        P.assume(z3.And(idx >= 0, idx < len(algs)))
        k = None
        for i in range(len(algs)):
            if P.branch(idx == i):
                k = i
                break
        alg = algs[k]
        P.inputs['host_key_algorithm'] = alg.name
        params = {}

        def sint(name):
            t = z3.Int(name)
            P.assume(t >= 0)
            P.inputs[name] = SInt(t)
            return SInt(t)

        def sbytes(name):
            s, facts = V.base_seq(name)
            for f in facts:
                P.assume(f)
            P.inputs[name] = s
            return s
        if kind == 'rsa':
            params = dict(public_exponent=sint('e'), modulus=sint('n'))
        elif kind == 'dss':
            params = dict(prime=sint('p'), order=sint('q'), generator=sint('g'), public_key_value=sint('y'))
        elif kind == 'ecdsa':
            ident = SS.ECDSA_IDENTIFIER.get(alg.value.code)
            if ident is None:
                raise E.PathEnd()                # an ECDSA algorithm name outside RFC 5656's three required curves
            group = {'nistp256': NamedGroup.PRIME256V1, 'nistp384': NamedGroup.SECP384R1, 'nistp521': NamedGroup.SECP521R1}[ident]
            params = dict(named_group=group, octet_bit_string=sbytes('Q'))
        else:
            params = dict(key_data=sbytes('key'))
        key = SObj(_Stub, dict(params=SObj(_Stub, dict(params)), key_size=SInt(z3.Int('key_size'))))
        o = SObj(cls, dict(host_key_algorithm=alg, public_key=key))
        I.CONTRACTS[ComposerBinary.compose_ssh_mpint] = spec_compose_ssh_mpint
        try:
            out = vc.outcome_of(lambda: I.call(I.getattr_(o, 'compose'), [], {}))
        finally:
            I.CONTRACTS.pop(ComposerBinary.compose_ssh_mpint, None)
        if out.kind != 'ret':
            # outside the domain of compose (a parameter that does not fit a uint32-prefixed string): nothing is laid out;
            # anything but the library's own errors is reported
            e1.record_path_fact(P, 'K6 %s: compose refuses only with the library errors (raised %s)' % (cls.__name__, out.value.cls.__name__),
                                issubclass(out.value.cls, e1.FOUR))
            return
        wire = ops.as_seq(out.value)
        want_params = {n: (MP(P, v) if isinstance(v, SInt) else v) for n, v in params.items()}
        # mp() of the specification is the same uninterpreted function
        SS.mp = lambda v: v
        want = {'rsa': SS.host_key_rsa, 'dss': SS.host_key_dss, 'ecdsa': SS.host_key_ecdsa, 'eddsa': SS.host_key_eddsa}[kind](o, want_params)
        vc.oblige_equal(P, 'K6 %s: the blob is the algorithm name followed by the key parameters the RFC lists, in its order' % cls.__name__,
                        wire.copy('bytes'), want)

    def native(seed=0, hints=()):
        """real keys of the class, composed and compared with an independent encoder"""
        import struct
        from cryptodatahub.common.key import PublicKey, PublicKeyParamsRsa, PublicKeyParamsEddsa, PublicKeyParamsEcdsa
        from cryptodatahub.common.algorithm import NamedGroup
        from cryptodatahub.ssh.algorithm import SshHostKeyAlgorithm
        st = lambda b: struct.pack('!I', len(b)) + b

        def mpi(v):
            if v == 0:
                return st(b'')
            b = v.to_bytes((v.bit_length() // 8) + 1, 'big')
            return st(b.lstrip(b'\x00') if b.lstrip(b'\x00')[0] < 0x80 else b'\x00' + b.lstrip(b'\x00'))
        cases = []
        try:
            if kind == 'rsa':
                for e, n in ((65537, (1 << 1023) | 12345), (3, (1 << 2047) | 1)):
                    cases.append((SshHostKeyAlgorithm.SSH_RSA, PublicKey.from_params(PublicKeyParamsRsa(public_exponent=e, modulus=n)),
                                  st(b'ssh-rsa') + mpi(e) + mpi(n)))
            elif kind == 'dss':
                from cryptodatahub.common.key import PublicKeyParamsDsa
                for p_, q_, g_, y_ in (((1 << 1023) | 5, (1 << 159) | 3, (1 << 1022) | 7, (1 << 1023) | 9), (0x7fffffff, 0x0fffffff, 5, 0x12345678)):
                    cases.append((SshHostKeyAlgorithm.SSH_DSS, PublicKey.from_params(PublicKeyParamsDsa(prime=p_, generator=g_, order=q_, public_key_value=y_)),
                                  st(b'ssh-dss') + mpi(p_) + mpi(q_) + mpi(g_) + mpi(y_)))
            elif kind == 'eddsa':
                kd = bytes(range(32))
                cases.append((SshHostKeyAlgorithm.SSH_ED25519, PublicKey.from_params(PublicKeyParamsEddsa(curve_type=NamedGroup.CURVE25519, key_data=kd)),
                              st(b'ssh-ed25519') + st(kd)))
            elif kind == 'ecdsa':
                import hashlib
                for name, group, size in (('ECDSA_SHA2_NISTP256', NamedGroup.PRIME256V1, 32), ('ECDSA_SHA2_NISTP384', NamedGroup.SECP384R1, 48),
                                          ('ECDSA_SHA2_NISTP521', NamedGroup.SECP521R1, 66)):
                    if not hasattr(SshHostKeyAlgorithm, name):
                        continue
                    gx = {32: (0x6b17d1f2e12c4247f8bce6e563a440f277037d812deb33a0f4a13945d898c296, 0x4fe342e2fe1a7f9b8ee7eb4a7c0f9e162bce33576b315ececbb6406837bf51f5),
                          48: (0xaa87ca22be8b05378eb1c71ef320ad746e1d3b628ba79b9859f741e082542a385502f25dbf55296c3a545e3872760ab7,
                               0x3617de4a96262c6f5d9e98bf9292dc29f8f41dbd289a147ce9da3113b5f0b8c00a60b1ce1d7e819d7a431d7c90ea0e5f),
                          66: (0x00c6858e06b70404e9cd9e3ecb662395b4429c648139053fb521f828af606b4d3dbaa14b5e77efe75928fe1dc127a2ffa8de3348b3c1856a429bf97e7e31c2e5bd66,
                               0x011839296a789a3bc0045c8a5fb42c7d1bd998f54449579b446817afbd17273e662c97ee72995ef42640c550b9013fad0761353c7086a272c24088be94769fd16650)}.get(size)
                    q = b'\x04' + gx[0].to_bytes(size, 'big') + gx[1].to_bytes(size, 'big')
                    try:
                        pk = PublicKey.from_params(PublicKeyParamsEcdsa.from_octet_bit_string(group, q))
                    except Exception:
                        continue
                    ident = name.split('_')[-1].lower().encode()
                    cases.append((getattr(SshHostKeyAlgorithm, name), pk, st(b'ecdsa-sha2-' + ident) + st(ident) + st(q)))
        except Exception as ex:
            return dict(reproduced=False, error=repr(ex)[:200])
        for alg, pk, want in cases:
            try:
                got = bytes(cls(alg, pk).compose())
            except Exception as ex:
                return dict(reproduced=True, call='%s(%s, <key>).compose()' % (cls.__name__, alg.name), expected=want.hex()[:80], observed=repr(ex)[:120], key='blob')
            if got != want:
                return dict(reproduced=True, call='%s(%s, <key>).compose()' % (cls.__name__, alg.name), expected=want.hex()[:120], observed=got.hex()[:120], key='blob')
        return dict(reproduced=False)

    def run():
        e2.setup()
        return vc.run_unit(cls.__name__, thunk, max_paths=500)
    return Unit('K6-blob/%s' % common.class_key(cls), run, replay=lambda inputs: native(0), search=native, clause='K6 key blob',
                functions=['%s.compose' % cls.__name__, '%s._compose_host_key_params' % cls.__name__, 'spec.ssh.host_key_%s' % kind])


def packet_unit(cls):
    """RFC 4253 6: uint32 packet_length, byte padding_length, payload, padding; the total is a multiple of 8, the padding
    is 4..255 bytes, packet_length counts padding_length byte + payload + padding. The payload is the composed message,
    an ARBITRARY byte string here (the message enters by its class contract); the real compose() is run for every
    residue of the payload length modulo 8 (which fixes the trip count of the padding loop)"""
    def thunk():
        from spec.wire import cat, u8, u32
        P = E.cur()
        payload, facts = V.base_seq('payload', 'bytearray')
        for f in facts:
            P.assume(f)
        P.inputs['payload'] = payload
        r = None
        for k in range(8):
            if P.branch(payload.n % 8 == k):
                r = k
                break
        msg = SObj(cls._get_variant_class())
        msg.abstract = True
        msg.abstract_of = cls._get_variant_class()
        msg.abstract_id = V.fresh_int('obj')
        msg.f['_abs_compose'] = payload
        o = SObj(cls, dict(packet=msg))
        out = vc.outcome_of(lambda: I.call(I.getattr_(o, 'compose'), [], {}))
        if out.kind != 'ret':
            e1.record_path_fact(P, 'packet: compose refuses only with the library errors (raised %s)' % out.value.cls.__name__,
                                issubclass(out.value.cls, e1.FOUR))
            return
        wire = ops.as_seq(out.value)
        pad = wire.at(4)
        plen = ((wire.at(0) * 256 + wire.at(1)) * 256 + wire.at(2)) * 256 + wire.at(3)
        P.oblige('packet: the whole packet is a multiple of 8 bytes', wire.n % 8 == 0)
        P.oblige('packet: 4 <= padding_length <= 255', z3.And(pad >= 4, pad <= 255))
        P.oblige('packet: packet_length == 1 + len(payload) + padding_length and the packet is 4 + packet_length bytes',
                 z3.And(plen == 1 + payload.n + pad, wire.n == 4 + plen))
        vc.oblige_equal(P, 'packet: the payload follows the five header bytes unchanged',
                        V.slice_seq(wire, 5, 5 + payload.n).copy('bytes'), payload.copy('bytes'))

    def native(seed=0, hints=()):
        from cryptoparser.ssh.subprotocol import SshUnimplementedMessage, SshNewKeys, SshDHGroupExchangeGroup
        for m in [SshNewKeys(), SshUnimplementedMessage(7)] + [SshDHGroupExchangeGroup(bytes(n), b'\x02') for n in range(0, 20)]:
            try:
                w = bytes(cls(m).compose())
            except Exception:
                continue
            body = bytes(m.compose())
            pl, pad = int.from_bytes(w[:4], 'big'), w[4]
            if len(w) % 8 or not 4 <= pad <= 255 or pl != 1 + len(body) + pad or len(w) != 4 + pl or w[5:5 + len(body)] != body:
                return dict(reproduced=True, call='%s(%r).compose()' % (cls.__name__, m), observed=w.hex()[:80],
                            expected='multiple of 8, padding 4..255, packet_length = 1 + %d + padding' % len(body), key='packet layout')
        return dict(reproduced=False)

    def run():
        e2.setup()
        from contracts import nested
        nested.ABSTRACT_DISABLED = False       # the message is abstract on purpose
        return vc.run_unit(cls.__name__, thunk, max_paths=200)
    return Unit('packet/%s' % common.class_key(cls), run, replay=lambda inputs: native(0), search=native, clause='binary packet',
                functions=['SshRecordBase.compose'])


def packet_parse_unit(cls):
    """the read direction of RFC 4253 6: a buffer that IS a packet as specified -- uint32 packet_length, byte padding_length,
    payload, padding -- with 4..255 padding bytes, a total that is a multiple of 8 and within what every implementation
    must accept (6.1: payload <= 32768, total <= 35000) is accepted, consumed entirely, and yields the message the payload
    encodes (the message enters by its class contract: parsing exactly the bytes an abstract message composed to gives it back)"""
    def thunk():
        from spec.wire import cat, u8, u32
        P = E.cur()
        P.top_class = cls
        P.nested_memo = []
        vcls = cls._get_variant_class()
        payload, facts = V.base_seq('payload', 'bytearray')
        for f in facts:
            P.assume(f)
        padding, facts = V.base_seq('padding', 'bytes')
        for f in facts:
            P.assume(f)
        total = 5 + payload.n + padding.n
        P.assume(z3.And(padding.n >= 4, padding.n <= 255, total % 8 == 0, payload.n >= 1, payload.n <= 32768, total <= 35000))
        P.inputs.update(payload=payload, padding=padding)
        from contracts import nested as _nested
        msg = _nested.abstract_instance(vcls)                # typed as the common base of the variant's message classes
        msg.f['_abs_compose'] = payload
        P.__dict__.setdefault('abs_composed', []).append((vcls, msg, payload))
        buf = cat(u32(1 + payload.n + padding.n), u8(padding.n), payload, padding)
        out = vc.outcome_of(lambda: I.call(cls.parse_immutable, [buf], {}))
        e1.record_path_fact(P, 'packet (read): a packet as specified, within the sizes RFC 4253 6.1 obliges every implementation to '
                            'process, is accepted%s' % ('' if out.kind == 'ret' else ' (raised %s)' % out.value.cls.__name__), out.kind == 'ret')
        if out.kind != 'ret':
            return
        o, n = out.value
        P.oblige('packet (read): the whole packet is consumed', ops.as_int(n) == buf.n)
        vc.oblige_equal(P, 'packet (read): the message is the one the payload encodes', I.getattr_(o, 'packet'), msg)

    def native(seed=0, hints=()):
        import struct
        from cryptoparser.ssh import subprotocol as SP

        def message(size):
            """a message of this variant whose encoding has (about) `size` octets"""
            if cls.__name__ == 'SshRecordKexDHGroup':
                return SP.SshDHGroupExchangeGroup(bytes(max(size - 10, 0)), b'\x02')
            if cls.__name__ == 'SshRecordKexDH':
                return SP.SshDHKeyExchangeInit(bytes(max(size - 5, 0)))
            from checks import kexinit
            o = SP.SshKeyExchangeInit.parse_exact_size(kexinit.sample_bytes())
            short = len(kexinit.sample_bytes())
            if size > short + 2:
                o.kex_algorithms.append('x' * (size - short - 1) if size - short - 1 > 0 else 'x')
            return o
        for size in (20, 100, 255, 256, 4096, 32759, 32760, 32767, 32768):
            try:
                m = message(size)
                body = bytes(m.compose())
            except Exception:
                continue
            if len(body) > 32768:
                continue
            pad = 8 - (len(body) + 5) % 8
            pad += 8 if pad < 4 else 0
            w = struct.pack('!IB', 1 + len(body) + pad, pad) + body + bytes(pad)
            call = '%s.parse_immutable(<packet with a payload of %d octets, %d octets in all>)' % (cls.__name__, len(body), len(w))
            try:
                o, n = cls.parse_immutable(w)
            except Exception as ex:
                return dict(reproduced=True, call=call, expected='accepted', observed=repr(ex)[:160], key='packet read')
            if n != len(w) or o.packet != m:
                return dict(reproduced=True, call=call, expected='the message, %d consumed' % len(w), observed='%r, %d' % (type(o.packet).__name__, n), key='packet read')
        return dict(reproduced=False)

    def run():
        e2.setup()
        from contracts import nested
        nested.ABSTRACT_DISABLED = False
        nested.K3_CLAUSE = True
        return vc.run_unit(cls.__name__ + '-read', thunk, max_paths=200)
    return Unit('packet-read/%s' % common.class_key(cls), run, replay=lambda inputs: native(0), search=native, clause='binary packet (read)',
                functions=['SshRecordBase._parse'])


def _units_body(tier, seed):
    from cryptoparser.ssh import key as SK
    from checks import foundation
    by_name = {c.__name__: c for c in e1.binary_classes()}
    out = []
    for n in MESSAGES:
        c = by_name[n]
        out.append(Unit('K6/%s' % common.class_key(c), e2.clause_unit(c, ('K6', 'K3')), replay=k6family.replay_for(c), clause='K6+K3',
                        functions=['%s.compose' % n, '%s._parse' % n, 'spec.%s' % n]))
    for cls, kind in ((SK.SshHostKeyRSA, 'rsa'), (SK.SshHostKeyDSS, 'dss'), (SK.SshHostKeyECDSA, 'ecdsa'), (SK.SshHostKeyEDDSA, 'eddsa')):
        out.append(key_blob_unit(cls, kind))
    from cryptoparser.ssh import record as SR
    for cls in (SR.SshRecordInit, SR.SshRecordKexDH, SR.SshRecordKexDHGroup):
        out.append(packet_unit(cls))
        out.append(packet_parse_unit(cls))
    dm = by_name['SshDisconnectMessage']
    out.append(Unit('K6-compose-only/%s' % common.class_key(dm), e2.compose_only_unit(dm), replay=k6family.replay_for(dm), clause='K6',
                    functions=['SshDisconnectMessage.compose', 'spec.ssh.disconnect']))
    from checks import kexinit
    out.append(kexinit.k6_unit())
    out.append(kexinit.k5_unit())
    from checks import sshcert, sshreply
    out += sshcert.units()
    out += sshreply.units()
    # elements of an OpenSSH certificate (PROTOCOL.certkeys): principal strings, flag options, unparsed options, force-command
    for n in CERT_ELEMENTS:
        c = by_name[n]
        out.append(Unit('K6/%s' % common.class_key(c), e2.clause_unit(c, ('K6', 'K3')), replay=k6family.replay_for(c), clause='K6+K3',
                        functions=['%s.compose' % n, '%s._parse' % n, 'spec.ssh PROTOCOL.certkeys']))
    from checks import tables as _tables
    _table_units = _tables.units(_tables.SSH)
    return out + foundation.units(tier, seed) + _table_units



def units(tier, seed):
    from checks import canary
    return list(_units_body(tier, seed)) + [canary.padding_five()]


FINDING_REPLAYS = regions.finding_replays('C07')
