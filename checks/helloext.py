# The extension block of the TLS hello messages (RFC 5246 7.4.1.4 / RFC 8446 4.2): TlsHandshakeHello._compose_extensions under
# contract -- for ANY list of extensions the block is the two-octet length followed by the extensions' encodings, each verbatim
# and IN THE ORDER OF THE LIST (nothing moved, dropped or added); no block at all for an empty list. The extensions enter by
# their class contracts (abstract objects: compose() gives some byte string), so the statement covers every extension class
# and every list the exploration bound admits; JA3 (C15) and the round trip (C01) of a hello depend on this order.
import z3

from pyvc import values as V, engine as E, interp as I, ops, vc
from pyvc.runner import Unit
from pyvc.values import SObj, SEnum
from checks import e1

MAX_EXTENSIONS = 3


def thunk():
    from cryptoparser.tls.subprotocol import TlsHandshakeHello, TlsHandshakeClientHello
    from cryptoparser.tls.extension import TlsExtensionVariantClient
    from cryptodatahub.tls.algorithm import TlsExtensionType
    from spec.wire import cat, u16
    P = E.cur()
    P.top_class = TlsHandshakeClientHello
    members = list(TlsExtensionType)
    exts, wires = [], []
    for k in range(MAX_EXTENSIONS):
        if not P.choose('the list has extension %d' % k):
            break
        w, facts = V.base_seq('extension_%d' % k, 'bytearray')
        for f in facts:
            P.assume(f)
        P.assume(w.n >= 4)                                   # type and length are always there (RFC 5246 7.4.1.4)
        idx = V.fresh_int('extension_type_%d' % k)
        P.assume(z3.And(idx >= 0, idx < len(members)))
        o = SObj(TlsExtensionVariantClient)
        o.abstract, o.abstract_of, o.abstract_id = True, TlsExtensionVariantClient, V.fresh_int('obj')
        o.f['_abs_compose'] = w
        o.f['extension_type'] = SEnum(TlsExtensionType, idx)
        P.inputs['extension_%d' % k] = w
        P.inputs['extension_type_%d' % k] = SEnum(TlsExtensionType, idx)
        exts.append(o)
        wires.append(w)
    out = vc.outcome_of(lambda: I.call(TlsHandshakeHello.__dict__['_compose_extensions'].__func__, [exts], {}))
    if out.kind != 'ret':
        e1.record_path_fact(P, 'extension block: compose refuses only with the library errors (raised %s)' % out.value.cls.__name__,
                            issubclass(out.value.cls, e1.FOUR))
        return
    got = ops.as_seq(out.value).copy('bytes')
    body = cat(*wires)
    want = cat(u16(body.n), body) if exts else cat()
    vc.oblige_equal(P, 'extension block [%d]: two-octet length, then every extension verbatim in the order of the list' % len(exts), got, want)


def native(seed=0, hints=()):
    import itertools
    import struct
    from cryptoparser.tls.subprotocol import TlsHandshakeHello
    from cryptoparser.tls.extension import TlsExtensionUnparsed
    from cryptodatahub.tls.algorithm import TlsExtensionType
    T = TlsExtensionType
    pool = [TlsExtensionUnparsed(t, bytes([i]) * i) for i, t in enumerate(
        (T.PRE_SHARED_KEY, T.SERVER_NAME, T.PADDING, T.KEY_SHARE, T.SUPPORTED_VERSIONS, T.PSK_KEY_EXCHANGE_MODES, T.EARLY_DATA))]
    for n in (0, 1, 2, 3):
        for combo in itertools.permutations(pool, n):
            body = b''.join(bytes(e.compose()) for e in combo)
            want = (struct.pack('!H', len(body)) + body) if combo else b''
            got = bytes(TlsHandshakeHello._compose_extensions(list(combo)))
            if got != want:
                return dict(reproduced=True, call='TlsHandshakeHello._compose_extensions(%s)' % [e.extension_type.name for e in combo],
                            expected=want.hex()[:160], observed=got.hex()[:160], key='extension order')
    return dict(reproduced=False)


def unit():
    def run():
        from contracts import nested
        e1.setup()
        nested.ABSTRACT_DISABLED = False
        r = vc.run_unit('hello-extension-block', thunk, max_paths=200)
        r.extra['bounded'] = sorted(set(r.extra.get('bounded', [])) | {'extension lists of at most %d extensions (each an arbitrary byte string of its class)' % MAX_EXTENSIONS})
        return r
    return Unit('K6/tls.subprotocol.TlsHandshakeHello._compose_extensions (extensions by their class contracts)', run,
                replay=lambda inputs: native(0), search=native, clause='K6', functions=['TlsHandshakeHello._compose_extensions'])
