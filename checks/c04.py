# C04 -- incremental reads guided by the missing-byte count reassemble the stream
#   K7  for every framing unit C, every valid object v and every proper prefix b = enc_C(v)[:m] (m symbolic, so every
#       cut position including inside the header and the length fields): C._parse(b) raises NotEnoughData(k) with
#       1 <= k <= len(enc_C(v)) - m  (never accepts the prefix, never asks for more than the sender has written)
#   RL  the reader loop of the property statement is a lemma over K7 (no proper prefix accepted, request bounded by
#       what is outstanding), K3 (the complete record is accepted and consumed entirely) and K8 (the result does
#       not depend on what follows): the three facts are obligations of C04/K7, C01/K3 and C03/K8 for each unit;
#       unit lemma/reader-loop checks the induction step over these contracts for an abstract framing unit.
import z3

from cryptoparser.common.exception import NotEnoughData

from pyvc import values as V, engine as E, interp as I, ops, vc, gen
from pyvc.runner import Unit
from checks import common, e1, e2, rebuild

TRUSTED_BASE = common.TRUSTED_BASE
ASSUMPTIONS = common.ASSUMPTIONS + [
    'the objects whose encodings are cut are those the type-directed generator builds (same domain clauses as C01)',
]
UNCOVERED = []
BOUNDED = ['vectors of variable-size items inside a frame: at most 1 item']


def k7_unit(cls, builder=None, name=None):
    def thunk():
        P = E.cur()
        P.top_class = cls
        obj = builder(P) if builder is not None else gen.sym_object(P, cls, 'o')
        P.inputs['object'] = obj
        from checks import regions
        regions.exclude(P, obj)
        out = vc.outcome_of(lambda: I.call(I.getattr_(obj, 'compose'), [], {}))
        if out.kind == 'raise':
            raise E.PathEnd()                 # outside Valid_C
        wire = ops.as_seq(out.value)
        m = z3.Int('cut')
        P.assume(z3.And(m >= 0, m < wire.n))
        P.inputs['cut'] = V.SInt(m)
        prefix = V.slice_seq(wire, 0, m, 'bytes')
        res = vc.outcome_of(lambda: I.call(cls.parse_immutable, [prefix], {}))
        if res.kind == 'ret':
            e1.record_path_fact(P, 'K7 %s: a proper prefix of a valid frame is never accepted as a complete frame' % cls.__name__, False)
            return
        exc = res.value
        if not e1.record_path_fact(P, 'K7 %s: a proper prefix is rejected with NotEnoughData (got %s)' % (cls.__name__, exc.cls.__name__),
                                   exc.cls is NotEnoughData):
            return
        k = exc.f.get('bytes_needed')
        if not ops.is_intlike(k):
            e1.record_path_fact(P, 'K7 %s: NotEnoughData carries an integer missing-byte count' % cls.__name__, False)
            return
        ke = ops.as_int(k)
        P.oblige('K7 %s: the missing-byte count is at least 1' % cls.__name__, ke >= 1)
        P.oblige('K7 %s: the missing-byte count never exceeds the bytes really missing' % cls.__name__, ke <= wire.n - m)

    def run():
        e2.setup()
        gen.BOUNDED_NOTES.clear()
        r = vc.run_unit(cls.__name__, thunk, max_paths=3000)
        if gen.BOUNDED_NOTES:
            r.extra['bounded'] = sorted(set(r.extra.get('bounded', [])) | gen.BOUNDED_NOTES)
        return r

    def native(o, cut=None):
        try:
            wire = bytes(o.compose())
        except Exception:
            return dict(reproduced=False)
        cuts = range(len(wire)) if cut is None else [cut]
        for m in cuts:
            if not 0 <= m < len(wire):
                continue
            call = '%s.parse_immutable(bytes.fromhex(%r)[:%d])' % (cls.__name__, wire.hex(), m)
            try:
                cls.parse_immutable(wire[:m])
                return dict(reproduced=True, call=call[:400], expected='NotEnoughData(1..%d)' % (len(wire) - m), observed='accepted',
                            key='prefix accepted')
            except NotEnoughData as ex:
                if not (isinstance(ex.bytes_needed, int) and 1 <= ex.bytes_needed <= len(wire) - m):
                    return dict(reproduced=True, call=call[:400], expected='NotEnoughData(1..%d)' % (len(wire) - m),
                                observed='NotEnoughData(%r)' % (ex.bytes_needed,), key='wrong missing count')
            except Exception as ex:
                return dict(reproduced=True, call=call[:400], expected='NotEnoughData(1..%d)' % (len(wire) - m), observed=repr(ex)[:120],
                            key='other exception')
        return dict(reproduced=False)

    def replay(inputs):
        try:
            o = rebuild.value(inputs.get('object'))
        except Exception as ex:
            return dict(reproduced=False, error=repr(ex))
        w = native(o, inputs.get('cut') if isinstance(inputs.get('cut'), int) else None)
        return w if w.get('reproduced') else native(o)

    def search(seed, hints=()):
        for s in common.samples(cls):
            for m in range(len(s)):
                try:
                    cls.parse_immutable(s[:m])
                    return dict(reproduced=True, call='%s.parse_immutable(%r[:%d])' % (cls.__name__, s.hex(), m), expected='NotEnoughData',
                                observed='accepted', key='prefix accepted')
                except NotEnoughData as ex:
                    if not 1 <= ex.bytes_needed <= len(s) - m:
                        return dict(reproduced=True, call='%s.parse_immutable(%r[:%d])' % (cls.__name__, s.hex(), m),
                                    expected='1 <= k <= %d' % (len(s) - m), observed=repr(ex), key='wrong missing count')
                except Exception:
                    pass
        return dict(reproduced=False)
    return Unit(name or 'K7/%s' % common.class_key(cls), run, replay=replay, search=search, clause='K7',
                functions=['%s._parse' % cls.__name__, '%s.compose' % cls.__name__])


def reader_loop_lemma():
    """induction step of the reader loop over the contracts K7/K3/K8 of an abstract framing unit: with `have` bytes of
    a record of length L buffered (have < L), the reader asks for k more with 1 <= k <= L - have; it therefore never
    waits for bytes the sender has not written, strictly progresses, and reaches have == L after finitely many steps,
    at which point K3/K8 give exactly the record and leave the rest of the stream"""
    def thunk():
        P = E.cur()
        L, have, k = z3.Ints('L have k')
        P.assume(z3.And(L >= 1, have >= 0, have < L))
        P.assume(z3.And(k >= 1, k <= L - have))                      # K7 of the unit on the prefix of length `have`
        P.oblige('the reader never requests bytes beyond the record in progress', have + k <= L)
        P.oblige('progress: strictly more of the record is buffered after the read', have + k > have)
        P.oblige('variant: the number of missing bytes decreases and stays >= 0', z3.And(L - (have + k) < L - have, L - (have + k) >= 0))
    return lambda: vc.run_unit('reader-loop', thunk)


def _units_body(tier, seed):
    classes = [c for c in common.select_classes(e1.binary_classes(), tier, 'C04') if e1.is_framing(c)]
    out = [k7_unit(c) for c in classes]
    out.append(Unit('lemma/reader-loop', reader_loop_lemma(), level='property', clause='reader loop lemma'))
    UNCOVERED[:] = ['LDAP frames (asn1crypto "Insufficient data" translation): external, not interpreted'] + \
        [common.class_key(c) + ': see checks/classes.json' for c in e1.binary_classes() if e1.is_framing(c) and c not in classes]
    # "never accepts a proper prefix of a record as a complete record" also needs the accepted length to be the one the
    # header declares (a parser that masks the length field accepts a prefix of a long record): K8 of each framing unit
    # the client hello handshake message (symbolic cipher suite, SCSV flags, optional renegotiation_info extension)
    from checks import hello
    from cryptoparser.tls.subprotocol import TlsHandshakeClientHello
    hu = k7_unit(TlsHandshakeClientHello, builder=hello.sym_hello, name='K7/hello-lite TlsHandshakeClientHello')
    _run0 = hu.run

    def _run_hello():
        r = _run0()
        r.extra['bounded'] = sorted(set(r.extra.get('bounded', [])) | {'client hello with at most %d cipher suite(s), extensions: none or an empty renegotiation_info' % hello.max_suites()})
        return r
    hu.run = _run_hello
    hu.search = lambda seed, hints=(): dict(reproduced=False)
    out.append(hu)
    from checks import foundation, c03_k8
    k8 = [c03_k8.k8_unit(c) for c in common.select_classes(e1.binary_classes(), tier, 'K8') if e1.is_framing(c)]
    return list(out) + k8 + foundation.units(tier, seed)


from checks import regions as _regions

def units(tier, seed):
    from checks import canary
    return list(_units_body(tier, seed)) + [canary.e2_layout()]


FINDING_REPLAYS = _regions.finding_replays('C04')
