# E1: symbolic parse of an arbitrary byte string by one class; clauses K1 (exception set), K2 (consumed length),
# K10 (work bound) are stated on every path of the exploration.
import random

import z3

from cryptodatahub.common.exception import InvalidValue
from cryptoparser.common.exception import InvalidType, NotEnoughData, TooMuchData

from pyvc import values as V, engine as E, interp as I, ops, vc, frame as F, loops
from checks import census, common

FOUR = (NotEnoughData, TooMuchData, InvalidValue, InvalidType)
LOOP_BOUND = 2          # default bound for loops that have no contract yet (bounded stand-in, reported)
ITEM_BOUND = 2          # iterations of _parse_parsable_derived_array explored for variable-size item kinds

FRAMING = ('TlsRecord', 'SslRecord', 'SshRecordInit', 'SshRecordKexDH', 'SshRecordKexDHGroup', 'MySQLRecord', 'TPKT',
           'OpenVpnPacketWrapperTcp', 'SslRequest', 'Sync', 'TlsHandshakeClientHello', 'TlsHandshakeServerHello',
           'TlsHandshakeCertificate', 'TlsHandshakeCertificateRequest', 'TlsHandshakeCertificateStatus',
           'TlsHandshakeServerHelloDone', 'TlsHandshakeServerKeyExchange', 'TlsHandshakeHelloRetryRequest',
           'TlsHandshakeMessageVariant')


def setup():
    from contracts import register_all
    register_all()
    common.setup()
    from contracts import nested
    nested.ABSTRACT_DISABLED = False
    F.BOUNDS[('ParserBinary._parse_parsable_derived_array', 0)] = ITEM_BOUND
    F.DEFAULT_BOUND = LOOP_BOUND


def binary_classes():
    return [c for c in census.concrete_parsables() if not census.is_text(c)]


def feasible_model(P):
    r = P._check(rlimit=E.RLIMIT_GOAL)
    if r == z3.sat:
        try:
            return 'sat', P.solver.model()
        except z3.Z3Exception:
            return 'sat', None
    return ('unsat' if r == z3.unsat else 'unknown'), None


def record_path_fact(P, name, holds, kind='post'):
    """an obligation whose truth is a *syntactic* fact of the path (e.g. the class of the exception it raised):
    if it does not hold, the path itself is the counterexample, provided it is feasible"""
    if holds:
        P.obligations.append(E.Obligation(name, kind, 'proved'))
        return True
    st, model = feasible_model(P)
    if st == 'unsat':
        P.obligations.append(E.Obligation(name + ' [path infeasible]', kind, 'proved'))
        return True
    ob = E.Obligation(name, kind, 'failed' if st == 'sat' else 'unknown')
    if model is not None:
        ob.detail = dict(inputs=P.concretize_inputs(model))
    if getattr(P, 'overapprox', None):
        ob.status = 'unknown' if model is None else ob.status
        ob.detail = dict(ob.detail or {}, overapproximated=list(P.overapprox))
    P.obligations.append(ob)
    return False


def explore_parse(cls, on_path, max_paths=4000):
    def thunk():
        P = E.cur()
        buf, facts = V.base_seq('buf')
        for f in facts:
            P.assume(f)
        P.inputs['buf'] = buf
        P.buf = buf
        P.top_class = cls
        return I.call(cls.parse_immutable, [buf], {})
    return vc.run_unit(cls.__name__, thunk, on_result=on_path, max_paths=max_paths)


def bytes_of(inputs):
    b = inputs.get('buf') if isinstance(inputs, dict) else None
    if isinstance(b, dict) and 'hex' in b:
        return bytes.fromhex(b['hex'])
    return None


def mutations(seed, cls, extra=()):
    """byte strings for the contract-directed native search: composed samples of the class (when the test-suite-free
    default constructor works), truncations, single-byte corruptions, length-field extremes, random noise"""
    rnd = random.Random(seed)
    seeds = list(extra)
    out = [b'', b'\x00', b'\xff' * 4, b'\x00' * 8, b'\xff' * 16, bytes(range(32))]
    # byte strings that are awkward for the text codecs the binary layer uses (ascii, utf-8, idna punycode labels)
    for label in (b'xn--', b'xn--a', b'xn--zz', b'xn--ab-', b'\xc3', b'\xff\xfe', b'a' * 64):
        out += [bytes([len(label)]) + label + b'\x00', label, bytes([len(label)]) + label,
                b'\x00\x01' + bytes([len(label)]) + label + b'\x00']
    for n in (1, 2, 3, 4, 5, 6, 8, 12, 16, 24, 40, 64):
        for fill in (0x00, 0xff, 0x01, 0x80, 0x7f):
            out.append(bytes([fill]) * n)
    for _ in range(300):
        n = rnd.choice((1, 2, 3, 4, 5, 6, 7, 8, 10, 12, 16, 20, 32, 48))
        out.append(bytes(rnd.choice((0, 1, 2, 3, 4, 0x7f, 0x80, 0xff, rnd.randrange(256))) for _ in range(n)))
    for s in seeds:
        out.append(s)
        for cut in range(len(s)):
            out.append(s[:cut])
        for pos in range(min(len(s), 64)):
            for val in (0, 0xff, 0x80, s[pos] ^ 1):
                out.append(s[:pos] + bytes([val]) + s[pos + 1:])
        out.append(s + b'\x00')
        out.append(s + s)
        # the same header with a payload of all-zero / all-one bytes (degenerate key material, empty strings, zero lengths)
        for keep in (1, 2, 3, 4, 5, 6, 8):
            if keep < len(s):
                for fill in (0x00, 0xff):
                    out.append(s[:keep] + bytes([fill]) * (len(s) - keep))
                    for extra_len in (32, 56, 57, 64, 96):
                        out.append(s[:keep] + bytes([fill]) * extra_len)
    return out


# ------------------------------------------------------------------------------------------------- shared exploration
import hashlib
import os
import pickle

_DIGEST = None


def source_digest():
    """digest of everything an E1 result depends on: the repository's source, the verifier, contracts and checks"""
    global _DIGEST
    if _DIGEST is None:
        h = hashlib.sha256()
        import cryptoparser
        import cryptodatahub
        roots = [os.path.dirname(cryptoparser.__file__), os.path.join(common.HERE, 'pyvc'),
                 os.path.join(common.HERE, 'contracts'), os.path.join(common.HERE, 'checks'), os.path.join(common.HERE, 'spec')]
        for root in roots:
            for d, _, fs in sorted(os.walk(root)):
                for f in sorted(fs):
                    if f.endswith(('.py', '.json')):
                        p = os.path.join(d, f)
                        h.update(p.encode())
                        h.update(open(p, 'rb').read())
        h.update(open(os.path.join(common.HERE, 'known_findings.json'), 'rb').read())       # listed regions shape the proofs
        h.update(getattr(cryptodatahub, '__version__', '?').encode())
        h.update(repr((ITEM_BOUND, LOOP_BOUND, E.RLIMIT_BRANCH, E.RLIMIT_GOAL, os.environ.get('VERIF_CVC5_SAMPLE', ''))).encode())
        _DIGEST = h.hexdigest()[:24]
    return _DIGEST


def is_framing(cls):
    return cls.__name__ in FRAMING


def full_unit(cls):
    """one exploration of cls._parse on an arbitrary buffer with the obligations of K1 and K2 on every path"""
    name = cls.__name__

    def on_path(r):
        P = r.path
        buf = P.buf
        if r.kind == 'raise':
            ec = r.value.cls
            record_path_fact(P, 'K1 %s._parse raises only the four parse errors (got %s)' % (name, ec.__name__),
                             issubclass(ec, FOUR))
            return
        record_path_fact(P, 'K1 %s._parse returns' % name, True)
        val = r.value
        if not (isinstance(val, tuple) and len(val) == 2):
            record_path_fact(P, 'K2 %s._parse returns an (object, length) pair' % name, False)
            return
        obj, n = val
        if not ops.is_intlike(n):
            record_path_fact(P, 'K2 %s._parse returns an integer length' % name, False)
            return
        ne = ops.as_int(n)
        P.oblige('K2 %s: consumed length n >= 0' % name, ne >= 0)
        P.oblige('K2 %s: consumed length n <= len(buffer)' % name, ne <= buf.n)
        if is_framing(cls):
            P.oblige('K2 %s: a framing unit consumes at least one byte' % name, ne >= 1)
        from contracts import nested
        if cls in nested.ITEM_CLASSES:
            # guarantee side of the assumption made wherever this class is parsed as a vector item
            P.oblige('K2i %s: as a vector item it consumes at least one byte of a non-empty buffer' % name,
                     z3.Implies(buf.n > 0, ne >= 1))
    return explore_parse(cls, on_path)


def cached_full_unit(cls):
    d = os.path.join(common.HERE, '.cache', 'e1', source_digest())
    p = os.path.join(d, '%s.%s.pkl' % (cls.__module__, cls.__name__))
    if os.path.exists(p):
        try:
            with open(p, 'rb') as f:
                return pickle.load(f)
        except Exception:
            pass
    setup()
    res = full_unit(cls)
    try:
        os.makedirs(d, exist_ok=True)
        tmp = p + '.%d.tmp' % os.getpid()
        with open(tmp, 'wb') as f:
            pickle.dump(res, f)
        os.replace(tmp, p)
    except Exception:
        pass
    return res


def clause_view(res, prefix):
    """the obligations of one clause out of a full exploration result"""
    import copy
    out = copy.copy(res)
    out.obligations = [o for o in res.obligations if o['name'].startswith(prefix) or o['kind'] in ('loop-entry', 'loop-step', 'budget')]
    return out
