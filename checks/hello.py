# TlsHandshakeClientHello with a symbolic cipher-suite list (known, unknown and GREASE codes), symbolic SCSV flags and
# default remaining fields: compose purity (K9), RFC layout (K6) and round trip (K3), each code over the whole 2^16
# space. The list length is bounded (0..2 items): a bounded stand-in for the message, reported as such.
import z3

from pyvc import values as V, engine as E, interp as I, ops, vc
from pyvc.runner import Unit
from pyvc.values import SCoded, SBool
from checks import common, e1, e2

MAX_SUITES = 1


def _thorough():
    import os
    return os.environ.get('VERIF_ACTIVE_TIER') == 'thorough'


def max_suites():
    return MAX_SUITES          # two symbolic suites leave the K3 equality of the suite vector undecided (z3 unknown): not used


def sym_hello(P):
    from cryptoparser.tls.subprotocol import TlsHandshakeClientHello
    from cryptoparser.tls.ciphersuite import TlsCipherSuiteFactory
    from cryptoparser.tls.grease import TlsInvalidTypeTwoByte
    from contracts.common_base import coded_spec
    sp = coded_spec(TlsCipherSuiteFactory.get_enum_class(), TlsInvalidTypeTwoByte, 2)
    suites = []
    codes = []
    for i in range(max_suites()):
        if not P.choose('hello has cipher suite %d' % i):
            break
        c = z3.Int('suite_%d' % i)
        P.assume(z3.And(c >= 0, c < 65536, c != 0x5600, c != 0x00ff))     # the SCSV markers are flags of the object
        codes.append(V.SInt(c))
        suites.append(I.materialize(SCoded(sp, c)))
    fb, er = SBool(z3.Bool('fallback_scsv')), SBool(z3.Bool('empty_renegotiation_info_scsv'))
    from cryptoparser.tls.subprotocol import TlsHandshakeHelloRandom, TlsHandshakeHelloRandomBytes
    secs = z3.Int('gmt_unix_time')
    P.assume(z3.And(secs >= 0, secs < 2 ** 32))
    rnd = I.construct(TlsHandshakeHelloRandom, [], dict(time=V.SDateTime(secs, z3.IntVal(0), aware=False),
                                                        random=TlsHandshakeHelloRandomBytes(bytearray(range(28)))))
    P.inputs.update(cipher_suite_codes=codes, fallback_scsv=fb, empty_renegotiation_info_scsv=er, gmt_unix_time=V.SInt(secs))
    kw = dict(cipher_suites=suites, random=rnd, fallback_scsv=fb, empty_renegotiation_info_scsv=er)
    if P.choose('hello carries a renegotiation_info extension'):
        # the one extension whose presence interacts with a cipher-suite marker (RFC 5746): both may be sent together
        from cryptoparser.tls.extension import TlsExtensionRenegotiationInfo
        kw['extensions'] = [TlsExtensionRenegotiationInfo()]
        P.inputs['extensions'] = ['renegotiation_info']
    return I.construct(TlsHandshakeClientHello, [], kw)


def thunk():
    from cryptoparser.tls.subprotocol import TlsHandshakeClientHello
    from spec import tls, wire as W
    P = E.cur()
    P.top_class = TlsHandshakeClientHello
    obj = sym_hello(P)
    snapshot = vc.clone(obj)
    out = vc.outcome_of(lambda: I.call(I.getattr_(obj, 'compose'), [], {}))
    vc.oblige_equal(P, 'K9 TlsHandshakeClientHello.compose() leaves the object unchanged (%s)' % out.describe(), obj, snapshot)
    if out.kind == 'raise':
        e1.record_path_fact(P, 'compose refuses only with the library errors (got %s)' % out.value.cls.__name__,
                            issubclass(out.value.cls, e1.FOUR))
        return
    wire = ops.as_seq(out.value)
    vc.oblige_equal(P, 'K6 TlsHandshakeClientHello: composed bytes equal the RFC 5246 7.4.1.2 encoding', wire.copy('bytes'),
                    W.call_spec('TlsHandshakeClientHello', obj))
    again = ops.as_seq(I.call(I.getattr_(obj, 'compose'), [], {}))
    vc.oblige_equal(P, 'K9 a second compose() returns the same bytes', again.copy('bytes'), wire.copy('bytes'))
    rest, facts = V.base_seq('rest')
    for f in facts:
        P.assume(f)
    res = vc.outcome_of(lambda: I.call(TlsHandshakeClientHello.parse_immutable, [V.concat(wire, rest, 'bytes')], {}))
    if res.kind != 'ret':
        e1.record_path_fact(P, 'K3 TlsHandshakeClientHello: the composed bytes are accepted (got %s)' % res.value.cls.__name__, False)
        return
    o2, n = res.value
    P.oblige('K3 TlsHandshakeClientHello: the parser consumes exactly the composed bytes', ops.as_int(n) == wire.n)
    vc.oblige_equal(P, 'K3 TlsHandshakeClientHello: parsed object equals the original (no cipher suite dropped or altered)', o2, obj)


def run():
    import os
    import pickle
    d = os.path.join(common.HERE, '.cache', 'hello', e1.source_digest())
    p = os.path.join(d, 'clienthello-%d.pkl' % max_suites())
    if os.path.exists(p):
        try:
            return pickle.load(open(p, 'rb'))
        except Exception:
            pass
    r = _run()
    if not any(u.startswith('exploration exceeded') for u in r.unsupported):
        try:
            os.makedirs(d, exist_ok=True)
            pickle.dump(r, open(p + '.tmp%d' % os.getpid(), 'wb'))
            os.replace(p + '.tmp%d' % os.getpid(), p)
        except Exception:
            pass
    return r


def _run():
    e2.setup()
    r = vc.run_unit('hello', thunk, max_paths=4000)
    r.extra['bounded'] = sorted(set(r.extra.get('bounded', [])) | {'ClientHello with at most %d cipher suites (each code symbolic over 2^16), default version/random/session id/compression, extensions: none or an empty renegotiation_info' % max_suites()})
    return r


def native_search(seed, hints=()):
    import copy
    import random
    from cryptoparser.tls.subprotocol import TlsHandshakeClientHello
    from cryptoparser.tls.grease import TlsInvalidTypeTwoByte
    from cryptodatahub.tls.algorithm import TlsCipherSuite
    rnd = random.Random(seed)
    table = {m.value.code: m for m in TlsCipherSuite}

    def item(code):
        return table[code] if code in table else TlsInvalidTypeTwoByte(code)
    pool = [0x0005, 0x1301, 0xc02f, 0x0a0a, 0xfafa, 0xff01, 0x00fe, 0x5601, 0x0100] + [rnd.randrange(65536) for _ in range(30)]
    pool = [c for c in pool if c not in (0x5600, 0x00ff)]
    for n in (0, 1, 2, 3):
        for _ in range(25):
            codes = [rnd.choice(pool) for _ in range(n)]
            for fb, er, with_ext in [(a, b, c) for a in (False, True) for b in (False, True) for c in (False, True)]:
                if True:
                    try:
                        import datetime
                        from cryptoparser.tls.subprotocol import TlsHandshakeHelloRandom, TlsHandshakeHelloRandomBytes
                        from cryptoparser.tls.extension import TlsExtensionRenegotiationInfo
                        o = TlsHandshakeClientHello([item(c) for c in codes], fallback_scsv=fb, empty_renegotiation_info_scsv=er,
                                                    random=TlsHandshakeHelloRandom(datetime.datetime(2021, 3, 4, 5, 6, 7),
                                                                                   TlsHandshakeHelloRandomBytes(bytearray(range(28)))),
                                                    **(dict(extensions=[TlsExtensionRenegotiationInfo()]) if with_ext else {}))
                    except Exception:
                        continue
                    before = copy.deepcopy(o)
                    call = 'TlsHandshakeClientHello(%s, fallback_scsv=%s, empty_renegotiation_info_scsv=%s%s)' % (
                        [hex(c) for c in codes], fb, er, ', extensions=[TlsExtensionRenegotiationInfo()]' if with_ext else '')
                    try:
                        w1 = bytes(o.compose())
                        w2 = bytes(o.compose())
                    except Exception:
                        if o != before:
                            return dict(reproduced=True, call=call + '.compose()', expected='object unchanged', observed=repr(list(o.cipher_suites))[:200])
                        continue
                    if o != before or w1 != w2:
                        return dict(reproduced=True, call=call + '.compose() twice', expected='object unchanged, same bytes',
                                    observed='suites %r, second compose %s' % (list(o.cipher_suites)[-3:], 'differs' if w1 != w2 else 'same'))
                    want = b''.join(c.to_bytes(2, 'big') for c in codes) + (b'\x56\x00' if fb else b'') + (b'\x00\xff' if er else b'')
                    pos = 4 + 2 + 32 + 1 + len(o.session_id)
                    got = w1[pos + 2: pos + 2 + len(want)]
                    if int.from_bytes(w1[pos:pos + 2], 'big') != len(want) or got != want:
                        return dict(reproduced=True, call=call + '.compose()', expected='cipher_suites vector %s' % want.hex(), observed=w1[pos:pos + 2 + len(want)].hex())
                    try:
                        o2, k = TlsHandshakeClientHello.parse_immutable(w1 + b'\x00')
                    except Exception as ex:
                        return dict(reproduced=True, call=call + ' round trip', expected='accepted', observed=repr(ex)[:100])
                    if k != len(w1) or o2 != o:
                        return dict(reproduced=True, call=call + ' round trip', expected='equal object, n=%d' % len(w1),
                                    observed='n=%d suites=%r' % (k, [x.value.code if hasattr(x.value, 'code') else x for x in o2.cipher_suites]))
    return dict(reproduced=False)


def unit(prefixes, clause):
    def r():
        import copy
        res = run()
        out = copy.copy(res)
        out.obligations = [o for o in res.obligations if o['name'].startswith(tuple(prefixes)) or o['kind'] in ('loop-entry', 'loop-step')]
        return out
    return Unit('hello/TlsHandshakeClientHello[%s]' % clause, r, search=native_search, replay=lambda inputs: native_search(0),
                clause=clause, functions=['TlsHandshakeClientHello.compose', 'TlsHandshakeClientHello._parse'])


# ---------------------------------------------------------------------------------------------- decoder direction
WIRE_SUITES = 2


def decode_thunk():
    """a specification-conformant ClientHello whose cipher_suites vector holds ARBITRARY codes (the signalling values
    0x5600 / 0x00ff anywhere in it, RFC 5746 3.3: "may appear anywhere") is parsed by the real parser: the flags must say
    exactly whether the markers are on the wire and the remaining suites must keep their order"""
    from cryptoparser.tls.subprotocol import TlsHandshakeClientHello, TlsHandshakeHelloRandom, TlsHandshakeHelloRandomBytes
    from cryptoparser.tls.ciphersuite import TlsCipherSuiteFactory
    from cryptoparser.tls.grease import TlsInvalidTypeTwoByte
    from contracts.common_base import coded_spec
    from spec import tls as ST, wire as W
    P = E.cur()
    P.top_class = TlsHandshakeClientHello
    sp = coded_spec(TlsCipherSuiteFactory.get_enum_class(), TlsInvalidTypeTwoByte, 2)
    codes = []
    for i in range(WIRE_SUITES):
        if not P.choose('wire has cipher suite %d' % i):
            break
        c = z3.Int('wire_suite_%d' % i)
        P.assume(z3.And(c >= 0, c < 65536))
        codes.append(c)
    P.inputs['wire_suite_codes'] = [V.SInt(c) for c in codes]
    secs = z3.Int('gmt_unix_time')
    P.assume(z3.And(secs >= 0, secs < 2 ** 32))
    rnd = I.construct(TlsHandshakeHelloRandom, [], dict(time=V.SDateTime(secs, z3.IntVal(0), aware=False),
                                                        random=TlsHandshakeHelloRandomBytes(bytearray(range(28)))))
    # which codes are markers: a case split of the specification
    kept, fb, er = [], False, False
    for c in codes:
        if P.branch(c == ST.FALLBACK_SCSV):
            fb = True
        elif P.branch(c == ST.EMPTY_RENEGOTIATION_INFO_SCSV):
            er = True
        else:
            kept.append(c)
    if not kept:
        raise E.PathEnd()           # a hello without any real cipher suite is outside the constructor's domain (vector minimum)
    want = I.construct(TlsHandshakeClientHello, [], dict(cipher_suites=[I.materialize(SCoded(sp, c)) for c in kept], random=rnd,
                                                         fallback_scsv=fb, empty_renegotiation_info_scsv=er))
    wire = ST.handshake(1, ST.client_hello_body(W.lift_deep(want), V.seq_of_terms(codes, 'list'), False, False))
    P.inputs['wire'] = wire
    res = vc.outcome_of(lambda: I.call(TlsHandshakeClientHello.parse_immutable, [wire.copy('bytes')], {}))
    if res.kind != 'ret':
        # the only conformant encodings the parser may refuse are those its vector bounds exclude (an empty suite list)
        e1.record_path_fact(P, 'K6-decode TlsHandshakeClientHello: a conformant encoding with %d suites is accepted (got %s)'
                            % (len(codes), res.value.cls.__name__), len(codes) == 0)
        return
    o2, n = res.value
    P.oblige('K6-decode TlsHandshakeClientHello: the whole encoding is consumed', ops.as_int(n) == wire.n)
    vc.oblige_equal(P, 'K6-decode TlsHandshakeClientHello: flags say which signalling suites are on the wire, the other suites keep their order',
                    o2, want)


def decode_native(seed, hints=()):
    import datetime
    from cryptoparser.tls.subprotocol import TlsHandshakeClientHello, TlsHandshakeHelloRandom, TlsHandshakeHelloRandomBytes
    from cryptodatahub.tls.algorithm import TlsCipherSuite
    base = TlsHandshakeClientHello([list(TlsCipherSuite)[0]], fallback_scsv=False, empty_renegotiation_info_scsv=False,
                                   random=TlsHandshakeHelloRandom(datetime.datetime(2021, 3, 4, 5, 6, 7),
                                                                  TlsHandshakeHelloRandomBytes(bytearray(range(28)))))
    for codes in ([0x00ff, 0x002f], [0x5600, 0xc02f], [0x002f, 0x00ff, 0xc02f], [0x5600, 0x00ff, 0x1301], [0x002f, 0x5600],
                  [0x1301, 0x00ff, 0x5600]):
        body = b''.join(c.to_bytes(2, 'big') for c in codes)
        payload = b'\x03\x03' + bytes(base.random.compose()) + b'\x00' + len(body).to_bytes(2, 'big') + body + b'\x01\x00'
        wire = b'\x01' + len(payload).to_bytes(3, 'big') + payload
        call = 'TlsHandshakeClientHello.parse_exact_size(bytes.fromhex(%r))' % wire.hex()
        try:
            o = TlsHandshakeClientHello.parse_exact_size(wire)
        except Exception as ex:
            return dict(reproduced=True, call=call, expected='accepted', observed=repr(ex)[:120], key='scsv position')
        got = [s.value.code for s in o.cipher_suites]
        want = [c for c in codes if c not in (0x5600, 0x00ff)]
        if got != want or o.fallback_scsv != (0x5600 in codes) or o.empty_renegotiation_info_scsv != (0x00ff in codes):
            return dict(reproduced=True, call=call, expected='suites %r fallback=%s renegotiation=%s' % (want, 0x5600 in codes, 0x00ff in codes),
                        observed='suites %r fallback=%s renegotiation=%s' % (got, o.fallback_scsv, o.empty_renegotiation_info_scsv),
                        key='scsv position')
    return dict(reproduced=False)


def decode_unit():
    def r():
        e2.setup()
        res = vc.run_unit('hello-decode', decode_thunk, max_paths=4000)
        res.extra['bounded'] = sorted(set(res.extra.get('bounded', [])) | {
            'ClientHello decoder direction: at most %d cipher suite codes on the wire (each symbolic over 2^16, markers anywhere), default version/session id/compression, no extensions' % WIRE_SUITES})
        return res
    return Unit('hello/TlsHandshakeClientHello[K6 decoder, SCSV anywhere]', r, search=decode_native, replay=lambda inputs: decode_native(0),
                clause='K6 decoder', functions=['TlsHandshakeClientHello._parse', 'spec.client_hello_body'])
