import importlib, pkgutil, inspect, ast, textwrap, collections
import cryptoparser
from cryptoparser.common.parse import ParsableBaseNoABC
mods = []
for m in pkgutil.walk_packages(cryptoparser.__path__, 'cryptoparser.'):
    mods.append(importlib.import_module(m.name))
def allsub(c):
    r = set()
    for s in c.__subclasses__():
        r.add(s); r |= allsub(s)
    return r
subs = [c for c in allsub(ParsableBaseNoABC) if c.__module__.startswith('cryptoparser')]
conc = [c for c in subs if not inspect.isabstract(c)]
print('subclasses', len(subs), 'non-abstract', len(conc))
bymod = collections.Counter(c.__module__ for c in conc)
print(bymod)
# classify by whether own/inherited _parse mentions ParserText / ParserBinary
def owner(c, name):
    for k in c.__mro__:
        if name in k.__dict__: return k
kinds = collections.Counter()
txt = []
for c in conc:
    o = owner(c, '_parse')
    try: src = inspect.getsource(o.__dict__['_parse'].__func__)
    except Exception as e: src = ''
    k = 'text' if 'ParserText' in src or '_parse_name' in src or 'parse_exact_size(parsable)' in src else ('binary' if 'ParserBinary' in src or '_parse_header' in src or 'parse_header' in src or '_parse_handshake_header' in src or '_parse_host_key_algorithm' in src else 'other')
    kinds[(c.__module__.split('.')[1], k)] += 1
    if k == 'other': txt.append((c.__name__, o.__name__))
print(kinds)
print(txt[:80])
