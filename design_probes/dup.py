import importlib, pkgutil, enum, collections, inspect
import cryptoparser, cryptodatahub
mods = []
for pkg in (cryptoparser, cryptodatahub):
    for m in pkgutil.walk_packages(pkg.__path__, pkg.__name__ + '.'):
        try: mods.append(importlib.import_module(m.name))
        except Exception as e: print('skip', m.name, e)
seen = set()
for mod in mods:
    for name, obj in vars(mod).items():
        if isinstance(obj, type) and issubclass(obj, enum.Enum) and obj not in seen and obj.__module__.startswith(('cryptoparser', 'cryptodatahub')):
            seen.add(obj)
            # aliases (same value object)
            aliases = [n for n, m in obj.__members__.items() if m.name != n]
            codes = collections.defaultdict(list)
            for m in obj:
                v = m.value
                c = getattr(v, 'code', v if isinstance(v, (int, str)) else None)
                if c is not None: codes[c].append(m.name)
            dups = {c: ns for c, ns in codes.items() if len(ns) > 1}
            if aliases or dups: print(obj.__module__, obj.__name__, 'aliases', aliases, 'dup codes', dups)
print('enums', len(seen))
