# throwaway feasibility probe: AST symbolic meta-interpreter over the real cryptoparser source
import ast, inspect, textwrap, struct, enum, sys, time, types
import z3
import attr, six

A = z3.ArraySort(z3.IntSort(), z3.IntSort())
_i = z3.Int('i!')

class SInt:
    def __init__(s, e): s.e = e if z3.is_expr(e) else z3.IntVal(e)
class SBool:
    def __init__(s, e): s.e = e
class SSeq:  # bytes / bytearray / list of ints
    def __init__(s, n, a, kind='bytes'): s.n, s.a, s.kind = n, a, kind
    def at(s, i): return z3.Select(s.a, i)
class SEnum:
    def __init__(s, cls, idx): s.cls, s.idx = cls, idx
class SEnumValue:
    def __init__(s, cls, idx): s.cls, s.idx = cls, idx
class SObj:
    def __init__(s, cls): s.cls, s.f = cls, {}
class PyRaise(Exception):
    def __init__(s, exc): s.exc = exc
class Ret(Exception):
    def __init__(s, v): s.v = v
class Infeasible(Exception): pass

def ival(x):
    if isinstance(x, SInt): return x.e
    if isinstance(x, bool): return z3.IntVal(int(x))
    if isinstance(x, int): return z3.IntVal(int(x))
    if isinstance(x, SEnum):  # IntEnum as int
        return table(x.cls, x.idx, lambda m: int(m.value))
    raise TypeError(x)

def table(cls, idx, f):
    ms = list(cls); e = z3.IntVal(f(ms[-1]))
    for k in range(len(ms)-2, -1, -1): e = z3.If(idx == k, z3.IntVal(f(ms[k])), e)
    return e

def conc_seq(b, kind='bytes'):
    a = z3.K(z3.IntSort(), z3.IntVal(0))
    for k, x in enumerate(b): a = z3.Store(a, k, int(x))
    return SSeq(z3.IntVal(len(b)), a, kind)
def concat(x, y, kind=None):
    return SSeq(x.n + y.n, z3.Lambda([_i], z3.If(_i < x.n, x.at(_i), y.at(_i - x.n))), kind or x.kind)
def clamp(v, n): return z3.If(v < 0, z3.If(v + n < 0, 0, v + n), z3.If(v > n, n, v))
def slice_(x, lo, hi):
    lo = clamp(lo, x.n) if lo is not None else z3.IntVal(0)
    hi = clamp(hi, x.n) if hi is not None else x.n
    n = z3.If(hi > lo, hi - lo, 0)
    return SSeq(z3.simplify(n), z3.Lambda([_i], x.at(_i + lo)), x.kind)

class Engine:
    def __init__(s):
        s.pc = []; s.decisions = []; s.pos = 0; s.solver = z3.Solver(); s.nq = 0
    def feasible(s, extra):
        s.nq += 1
        s.solver.push(); s.solver.add(*s.pc, extra); r = s.solver.check(); s.solver.pop()
        return r != z3.unsat
    def branch(s, cond):
        if isinstance(cond, bool): return cond
        c = z3.simplify(cond)
        if z3.is_true(c): return True
        if z3.is_false(c): return False
        if s.pos < len(s.decisions):
            d = s.decisions[s.pos][0]
        else:
            t, f = s.feasible(c), s.feasible(z3.Not(c))
            if t and f: s.decisions.append([True, True]); d = True
            elif t: s.decisions.append([True, False]); d = True
            elif f: s.decisions.append([False, False]); d = False
            else: raise Infeasible()
        s.pos += 1
        s.pc.append(c if d else z3.Not(c))
        return d

E = None
SRC = {}
def fn_ast(f):
    f = getattr(f, '__func__', f)
    if f not in SRC:
        src = textwrap.dedent(inspect.getsource(f))
        SRC[f] = ast.parse(src).body[0]
    return SRC[f]

def truth(v):
    if isinstance(v, SBool): return E.branch(v.e)
    if isinstance(v, SInt): return E.branch(v.e != 0)
    if isinstance(v, SSeq): return E.branch(v.n != 0)
    return bool(v)

def mk_exc(cls, *args, **kw):
    o = SObj(cls); o.f['args'] = args; o.f.update(kw)
    if attr.has(cls):
        for a, v in zip([a for a in attr.fields(cls) if a.init], args): o.f[a.name] = v
        for a in attr.fields(cls):
            if a.name not in o.f: o.f[a.name] = a.default
    if cls.__name__ in ('NotEnoughData', 'TooMuchData'):
        o.f['bytes_needed'] = kw.get('bytes_needed', args[0] if args else None)
    return o

MODELS = {}
def model(f):
    def deco(g): MODELS[f] = g; return g
    return deco

@model(len)
def _len(x):
    if isinstance(x, SSeq): return SInt(x.n)
    return len(x)
@model(bytes)
def _bytes(x=b''):
    if isinstance(x, SSeq): return SSeq(x.n, x.a, 'bytes')
    return conc_seq(bytes(x)) if not isinstance(x, SSeq) else x
@model(bytearray)
def _bytearray(x=b''):
    if isinstance(x, SSeq): return SSeq(x.n, x.a, 'bytearray')
    return conc_seq(bytes(x), 'bytearray')
@model(struct.pack)
def _pack(fmt, v):
    order, code = fmt[0], fmt[1]; w = {'B':1,'H':2,'I':4,'Q':8}[code]
    ve = ival(v)
    if not E.branch(z3.And(ve >= 0, ve < 256 ** w)):
        raise PyRaise(mk_exc(struct.error))
    bs = [ (ve / (256 ** k)) % 256 for k in range(w) ]      # little endian digits
    if order in '>!': bs = bs[::-1]
    a = z3.K(z3.IntSort(), z3.IntVal(0))
    for k, b in enumerate(bs): a = z3.Store(a, k, b)
    return SSeq(z3.IntVal(w), a)
@model(struct.unpack)
def _unpack(fmt, b):
    order, code = fmt[0], fmt[1]; w = {'B':1,'H':2,'I':4,'Q':8}[code]
    assert not E.feasible(b.n != w), 'unpack length'
    idx = range(w) if order in '>!' else range(w-1, -1, -1)
    e = z3.IntVal(0)
    for k in idx: e = e * 256 + b.at(k)
    return (SInt(e),)
@model(six.raise_from)
def _raise_from(exc, cause):
    raise PyRaise(exc if isinstance(exc, SObj) else mk_exc(exc))
@model(isinstance)
def _isinstance(o, t):
    if isinstance(o, SObj): return issubclass(o.cls, t)
    if isinstance(o, SSeq): return any(issubclass({'bytes':bytes,'bytearray':bytearray,'list':list}[o.kind], x) for x in (t if isinstance(t, tuple) else (t,)))
    if isinstance(o, SEnum): return issubclass(o.cls, t)
    if isinstance(o, SInt): return issubclass(int, t) if not isinstance(t, tuple) else any(issubclass(int, x) for x in t)
    return isinstance(o, t)
@model(int)
def _int(x): return x if isinstance(x, SInt) else int(x)
@model(range)
def _range(*a):
    if all(isinstance(x, int) for x in a): return range(*a)
    vals = [z3.simplify(ival(x)) for x in a]
    if all(z3.is_int_value(v) for v in vals): return range(*[v.as_long() for v in vals])
    raise NotImplementedError('symbolic range')

def construct(cls, args, kw):
    if isinstance(cls, type) and issubclass(cls, enum.Enum):      # Enum(value) conversion
        (v,) = args
        if isinstance(v, (SEnum,)) : return v
        if not isinstance(v, SInt): return cls(v)
        ms = list(cls)
        idx = z3.IntVal(-1)
        for k in range(len(ms)-1, -1, -1): idx = z3.If(v.e == int(ms[k].value), k, idx)
        if E.branch(idx >= 0): return SEnum(cls, idx)
        raise PyRaise(mk_exc(ValueError, v))
    if isinstance(cls, type) and issubclass(cls, BaseException):
        return mk_exc(cls, *args, **kw)
    if attr.has(cls):
        o = SObj(cls); fields = attr.fields(cls); it = iter(args)
        for a in fields:
            nm = a.name.lstrip('_') if a.name.startswith('_') else a.name
            if a.init:
                if nm in kw: v = kw[nm]
                else:
                    try: v = next(it)
                    except StopIteration:
                        assert a.default is not attr.NOTHING, (cls, a.name); v = a.default
            else: v = a.default
            if a.converter is not None: v = call(a.converter, [v], {})
            o.f[a.name] = v
        for a in fields:
            if a.validator is not None and a.init: validate(a.validator, o, a, o.f[a.name])
        if hasattr(cls, '__attrs_post_init__'): call(cls.__attrs_post_init__, [o], {})
        return o
    raise NotImplementedError(cls)

def validate(v, o, a, val):
    n = type(v).__name__
    if n == '_InstanceOfValidator':
        if not _isinstance(val, v.type): raise PyRaise(mk_exc(TypeError, a.name))
    elif n == '_InValidator':
        if isinstance(val, SEnum): assert val.cls is v.options or issubclass(val.cls, v.options)
        else: assert val in v.options
    elif n == '_OptionalValidator':
        if val is not None: validate(v.validator, o, a, val)
    else: raise NotImplementedError(n)

def call(f, args, kw):
    if f in MODELS: return MODELS[f](*args, **kw)
    if isinstance(f, type) and (attr.has(f) or issubclass(f, (enum.Enum, BaseException))): return construct(f, args, kw)
    def _conc(x): return not isinstance(x, (SInt, SBool, SSeq, SObj, SEnum, SEnumValue, BoundSym))
    if isinstance(f, types.MethodType) and isinstance(f.__self__, type) and all(_conc(x) for x in list(args) + list(kw.values())):
        return f(*args, **kw)            # closed term: evaluated by CPython itself
    if isinstance(f, types.MethodType):
        args = [f.__self__] + list(args); f = f.__func__
    if isinstance(f, BoundSym): return call(f.fn, [f.obj] + list(args), kw)
    if isinstance(f, types.FunctionType) and f.__module__.startswith('cryptoparser'):
        return run_fn(f, args, kw)
    if isinstance(f, types.BuiltinMethodType) and isinstance(getattr(f, '__self__', None), (list, dict)):
        return f(*args, **kw)
    if all(not isinstance(x, (SInt, SBool, SSeq, SObj, SEnum)) for x in list(args) + list(kw.values())):
        return f(*args, **kw)
    raise NotImplementedError(f)

class BoundSym:
    def __init__(s, fn, obj): s.fn, s.obj = fn, obj

def getattr_(o, name):
    if isinstance(o, SObj):
        if name in o.f: return o.f[name]
        for k in type.mro(o.cls):
            if name in k.__dict__:
                d = k.__dict__[name]
                if isinstance(d, property): return call(d.fget, [o], {})
                if isinstance(d, classmethod): return types.MethodType(d.__func__, o.cls)
                if isinstance(d, staticmethod): return d.__func__
                if isinstance(d, types.FunctionType): return BoundSym(d, o)
                return d
        raise AttributeError(name)
    if isinstance(o, SEnum):
        if name == 'value':
            return SEnumValue(o.cls, o.idx) if not issubclass(o.cls, int) else SInt(ival(o))
    if isinstance(o, SEnumValue):
        if name == 'code': return SInt(table(o.cls, o.idx, lambda m: m.value.code))
    return getattr(o, name)

def run_fn(f, args, kw):
    node = fn_ast(f)
    env = {}
    params = [a.arg for a in node.args.args]
    defaults = f.__defaults__ or ()
    for k, p in enumerate(params):
        if k < len(args): env[p] = args[k]
        elif p in kw: env[p] = kw[p]
        else: env[p] = defaults[k - (len(params) - len(defaults))]
    fr = Frame(f, env)
    try:
        fr.block(node.body)
    except Ret as r:
        return r.v
    return None

class Frame:
    def __init__(s, f, env): s.f, s.env, s.g = f, env, f.__globals__
    def block(s, stmts):
        for st in stmts: s.stmt(st)
    def stmt(s, st):
        m = getattr(s, 'st_' + type(st).__name__); m(st)
    def st_Expr(s, st): s.ev(st.value)
    def st_Pass(s, st): pass
    def st_Return(s, st): raise Ret(s.ev(st.value) if st.value else None)
    def st_Assign(s, st):
        v = s.ev(st.value)
        for t in st.targets: s.assign(t, v)
    def st_AugAssign(s, st):
        cur = s.ev(st.target if not isinstance(st.target, ast.Name) else ast.Name(st.target.id, ast.Load()))
        v = binop(type(st.op), cur, s.ev(st.value))
        s.assign(st.target, v)
    def assign(s, t, v):
        if isinstance(t, ast.Name): s.env[t.id] = v
        elif isinstance(t, ast.Attribute):
            o = s.ev(t.value); o.f[t.attr] = v
        elif isinstance(t, ast.Subscript):
            o = s.ev(t.value); k = s.ev(t.slice); o[k] = v
        elif isinstance(t, ast.Tuple):
            for tt, vv in zip(t.elts, v): s.assign(tt, vv)
        else: raise NotImplementedError(ast.dump(t))
    def st_If(s, st):
        if truth(s.ev(st.test)): s.block(st.body)
        else: s.block(st.orelse)
    def st_Raise(s, st):
        e = s.ev(st.exc)
        if isinstance(e, type): e = mk_exc(e)
        raise PyRaise(e)
    def st_Try(s, st):
        try:
            s.block(st.body)
        except PyRaise as pr:
            for h in st.handlers:
                t = s.ev(h.type) if h.type else BaseException
                if issubclass(pr.exc.cls, t):
                    if h.name: s.env[h.name] = pr.exc
                    s.block(h.body); break
            else: raise
        else:
            s.block(st.orelse)
    def st_For(s, st):
        it = s.ev(st.iter)
        if isinstance(it, SSeq):
            n = z3.simplify(it.n); assert z3.is_int_value(n), 'symbolic-length loop needs invariant'
            it = [SInt(it.at(k)) for k in range(n.as_long())]
        for x in it:
            s.assign(st.target, x); s.block(st.body)
    def ev(s, e):
        return getattr(s, 'ex_' + type(e).__name__)(e)
    def ex_Constant(s, e):
        return e.value
    def ex_Name(s, e):
        if e.id in s.env: return s.env[e.id]
        if e.id in s.g: return s.g[e.id]
        import builtins; return getattr(builtins, e.id)
    def ex_Attribute(s, e): return getattr_(s.ev(e.value), e.attr)
    def ex_Dict(s, e): return {s.ev(k): s.ev(v) for k, v in zip(e.keys, e.values)}
    def ex_List(s, e): return [s.ev(x) for x in e.elts]
    def ex_Tuple(s, e): return tuple(s.ev(x) for x in e.elts)
    def ex_Call(s, e):
        f = s.ev(e.func); args = [s.ev(a) for a in e.args]; kw = {}
        for k in e.keywords:
            v = s.ev(k.value)
            if k.arg is None: kw.update(v.f['_parsed_values'] if isinstance(v, SObj) else v)
            else: kw[k.arg] = v
        if isinstance(e.func, ast.Name) and e.func.id == 'super': return SuperProxy(s.f, args)
        return call(f, args, kw)
    def ex_BinOp(s, e): return binop(type(e.op), s.ev(e.left), s.ev(e.right))
    def ex_UnaryOp(s, e):
        v = s.ev(e.operand)
        if isinstance(e.op, ast.Not): return not truth(v)
        raise NotImplementedError
    def ex_BoolOp(s, e):
        if isinstance(e.op, ast.And):
            for x in e.values:
                v = s.ev(x)
                if not truth(v): return v
            return v
        for x in e.values:
            v = s.ev(x)
            if truth(v): return v
        return v
    def ex_Compare(s, e):
        l = s.ev(e.left); r = s.ev(e.comparators[0]); op = type(e.ops[0])
        assert len(e.ops) == 1
        return compare(op, l, r)
    def ex_Subscript(s, e):
        o = s.ev(e.value)
        if isinstance(e.slice, ast.Slice):
            lo = s.ev(e.slice.lower) if e.slice.lower else None
            hi = s.ev(e.slice.upper) if e.slice.upper else None
            if isinstance(o, SSeq): return slice_(o, None if lo is None else ival(lo), None if hi is None else ival(hi))
            return o[lo:hi]
        k = s.ev(e.slice)
        if isinstance(o, SSeq): return SInt(o.at(ival(k)))
        if isinstance(o, SObj) and '_parsed_values' in o.f: return o.f['_parsed_values'][k]
        if isinstance(o, list) and isinstance(k, int): return o[k]
        return o[k]

class SuperProxy:
    def __init__(s, f, args): pass

def binop(op, l, r):
    sym = lambda x: isinstance(x, (SInt, SEnum))
    if isinstance(l, SSeq) or isinstance(r, SSeq):
        if op is ast.Add:
            if not isinstance(l, SSeq): l = conc_seq(l)
            if not isinstance(r, SSeq): r = conc_seq(r)
            return concat(l, r)
        raise NotImplementedError(op)
    if sym(l) or sym(r):
        a, b = ival(l), ival(r)
        if op is ast.Add: return SInt(a + b)
        if op is ast.Sub: return SInt(a - b)
        if op is ast.Mult: return SInt(a * b)
        if op is ast.FloorDiv: return SInt(a / b)
        if op is ast.Mod: return SInt(a % b)
        if op in (ast.RShift, ast.LShift) and isinstance(r, int):
            return SInt(a / (2 ** r)) if op is ast.RShift else SInt(a * (2 ** r))
        if op is ast.BitAnd and (isinstance(r, int) or isinstance(l, int)):
            m, x = (r, a) if isinstance(r, int) else (l, b)
            lo = (m & -m).bit_length() - 1; run = m >> lo
            assert run & (run + 1) == 0, 'non-contiguous mask'
            return SInt(((x / (2 ** lo)) % (run + 1)) * (2 ** lo))
        if op is ast.BitOr and isinstance(r, int) and r & (r - 1) == 0:
            return SInt(z3.If((a / r) % 2 == 1, a, a + r))
        raise NotImplementedError(op)
    import operator
    return {ast.Add: operator.add, ast.Sub: operator.sub, ast.Mult: operator.mul, ast.Pow: operator.pow,
            ast.FloorDiv: operator.floordiv, ast.Mod: operator.mod, ast.BitOr: operator.or_, ast.BitAnd: operator.and_,
            ast.LShift: operator.lshift, ast.RShift: operator.rshift}[op](l, r)

def compare(op, l, r):
    if op in (ast.In, ast.NotIn):
        if isinstance(l, SInt) or any(isinstance(x, SInt) for x in r): raise NotImplementedError
        res = l in r
        return res if op is ast.In else not res
    if isinstance(l, (SInt, SEnum)) or isinstance(r, (SInt, SEnum)):
        a, b = ival(l), ival(r)
        return SBool({ast.Lt: a < b, ast.LtE: a <= b, ast.Gt: a > b, ast.GtE: a >= b, ast.Eq: a == b, ast.NotEq: a != b}[op])
    import operator
    return {ast.Lt: operator.lt, ast.LtE: operator.le, ast.Gt: operator.gt, ast.GtE: operator.ge, ast.Eq: operator.eq,
            ast.NotEq: operator.ne, ast.Is: operator.is_, ast.IsNot: operator.is_not}[op](l, r)

def explore(thunk):
    """DFS over decision lists; yields (pc, outcome) for each feasible path."""
    global E
    stack = [[]]
    while stack:
        dec = stack.pop()
        E = Engine(); E.decisions = [list(d) for d in dec]
        try:
            out = ('ret', thunk())
        except PyRaise as pr:
            out = ('raise', pr.exc)
        except Infeasible:
            continue
        # schedule alternatives
        for k in range(len(dec), len(E.decisions)):
            d, alt = E.decisions[k]
            if alt:
                stack.append([list(x) for x in E.decisions[:k]] + [[not d, False]])
        yield E.pc, out, E.nq

if __name__ == '__main__':
    from cryptoparser.common.parse import ComposerBinary, ParserBinary, ByteOrder
    from cryptoparser.tls.record import TlsRecord
    from cryptoparser.tls.subprotocol import TlsContentType
    from cryptoparser.tls.version import TlsProtocolVersion, TlsVersion
    t0 = time.time()
    # 1. compose_numeric(v, size) for each size: strongest post
    for size in (1, 2, 3, 4, 8):
        v = z3.Int('v')
        def thunk():
            c = construct(ComposerBinary, [], {})
            call(getattr_(c, 'compose_numeric'), [SInt(v), size], {})
            return c.f['_composed']
        for pc, out, nq in explore(thunk):
            kind, val = out
            if kind == 'ret':
                # obligation: in-range and big-endian bytes
                s = z3.Solver(); s.add(*pc)
                goal = z3.And(v >= 0, v < 256 ** size, val.n == size, *[val.at(k) == (v / 256 ** (size - 1 - k)) % 256 for k in range(size)])
                s.add(z3.Not(goal)); r = s.check()
                print('compose_numeric size', size, 'return path:', 'PROVED' if r == z3.unsat else ('CEX v=%s' % s.model()[v]))
            else:
                s = z3.Solver(); s.add(*pc, z3.And(v >= 0, v < 256 ** size))
                print('compose_numeric size', size, 'raise', val.cls.__name__, 'only when out of range:', s.check() == z3.unsat)
    # 2. TlsRecord round trip
    frag = SSeq(z3.Int('frag_n'), z3.Const('frag_a', A), 'bytes')
    ct = SEnum(TlsContentType, z3.Int('ct_idx')); ver = SEnum(TlsVersion, z3.Int('ver_idx'))
    rest = SSeq(z3.Int('rest_n'), z3.Const('rest_a', A), 'bytes')
    base = [frag.n >= 0, rest.n >= 0, ct.idx >= 0, ct.idx < len(TlsContentType), ver.idx >= 0, ver.idx < len(TlsVersion)]
    j = z3.Int('j'); base.append(z3.ForAll([j], z3.And(0 <= frag.at(j), frag.at(j) < 256)))
    def thunk2():
        E.pc.extend(base)
        pv = construct(TlsProtocolVersion, [ver], {})
        rec = construct(TlsRecord, [], dict(fragment=frag, protocol_version=pv, content_type=ct))
        wire = call(getattr_(rec, 'compose'), [], {})
        buf = concat(wire, rest)
        obj, n = call(TlsRecord.parse_immutable, [buf], {})
        return rec, wire, obj, n
    npaths = 0
    for pc, out, nq in explore(thunk2):
        npaths += 1
        kind, val = out
        if kind == 'raise':
            print('path raises', val.cls.__name__, val.f.get('bytes_needed'), 'pc size', len(pc)); continue
        rec, wire, obj, n = val
        s = z3.Solver(); s.add(*pc)
        j0 = z3.Int('j0')
        def eidx(x): return x.idx if isinstance(x, SEnum) else z3.IntVal(list(type(x)).index(x))
        goal = z3.And(ival(n) == wire.n, eidx(obj.f['content_type']) == ct.idx,
                      eidx(obj.f['protocol_version'].f['version']) == ver.idx,
                      obj.f['fragment'].n == frag.n, z3.Implies(z3.And(0 <= j0, j0 < frag.n), obj.f['fragment'].at(j0) == frag.at(j0)))
        s.add(z3.Not(goal)); r = s.check()
        print('RT path', npaths, 'queries', nq, '->', 'PROVED' if r == z3.unsat else r)
    print('paths', npaths, 'time', round(time.time() - t0, 2))
