import ast, sys, os
root = '/repo/cryptoparser'
mods = ['common/parse.py','common/base.py','common/x509.py','tls/record.py','tls/subprotocol.py','tls/extension.py','tls/version.py','tls/grease.py','tls/mysql.py','tls/rdp.py','tls/openvpn.py','tls/postgresql.py','tls/ldap.py','ssh/record.py','ssh/subprotocol.py','ssh/key.py','dnsrec/record.py']
tot_f = tot_l = 0
for m in mods:
    t = ast.parse(open(os.path.join(root, m)).read())
    for cls in [n for n in t.body if isinstance(n, ast.ClassDef)]:
        for fn in [n for n in cls.body if isinstance(n, ast.FunctionDef)]:
            tot_f += 1
            loops = [n for n in ast.walk(fn) if isinstance(n, (ast.For, ast.While, ast.ListComp, ast.SetComp, ast.GeneratorExp, ast.DictComp))]
            if loops:
                descr = []
                for l in loops:
                    if isinstance(l, ast.For): descr.append('for@%d:%s' % (l.lineno, ast.unparse(l.iter)[:50]))
                    elif isinstance(l, ast.While): descr.append('while@%d:%s' % (l.lineno, ast.unparse(l.test)[:50]))
                    else: descr.append('comp@%d:%s' % (l.lineno, ast.unparse(l.generators[0].iter)[:40]))
                tot_l += len(loops)
                print('%s %s.%s  %s' % (m, cls.name, fn.name, ' | '.join(descr)))
print('functions', tot_f, 'loops/comprehensions', tot_l)
