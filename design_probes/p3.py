import z3, time
I = z3.IntSort(); B = z3.SeqSort(I)
def rd2(s,o): return s[o]*256 + s[o+1]
def chk(name, s):
    t=time.time(); r=s.check(); print(name, r, round(time.time()-t,3))
j = z3.Int('j')
P = z3.Const('P', B); value = z3.Const('value', B); pl,k,n = z3.Ints('pl k n')
# parse loop step, index-characterised invariant
s = z3.Solver(); s.set('timeout', 20000)
s.add(pl>=0, k>=0, k<n, pl+2*n<=z3.Length(P))
s.add(z3.Length(value)==k, z3.ForAll([j], z3.Implies(z3.And(0<=j,j<k), value[j]==rd2(P,pl+2*j))))
value2 = z3.Concat(value, z3.Unit(rd2(P, pl+2*k)))
j0 = z3.Int('j0')
s.add(z3.Not(z3.And(z3.Length(value2)==k+1, z3.Implies(z3.And(0<=j0,j0<k+1), value2[j0]==rd2(P,pl+2*j0)))))
chk('parse-step', s)
# compose loop step: body bytes
vals = z3.Const('vals', B); comp = z3.Const('comp', B)
s = z3.Solver(); s.set('timeout', 20000)
s.add(k>=0, k<z3.Length(vals), z3.Length(comp)==2*k)
s.add(z3.ForAll([j], z3.Implies(z3.And(0<=j,j<z3.Length(vals)), z3.And(0<=vals[j], vals[j]<65536))))
s.add(z3.ForAll([j], z3.Implies(z3.And(0<=j,j<k), z3.And(comp[2*j]==vals[j]/256, comp[2*j+1]==vals[j]%256))))
comp2 = z3.Concat(comp, z3.Unit(vals[k]/256), z3.Unit(vals[k]%256))
s.add(z3.Not(z3.And(z3.Length(comp2)==2*(k+1), z3.Implies(z3.And(0<=j0,j0<k+1), z3.And(comp2[2*j0]==vals[j0]/256, comp2[2*j0+1]==vals[j0]%256)))))
chk('compose-step', s)
# round trip: body satisfies compose post; parse of pre ++ body ++ rest gives value with parse post; show value == vals
pre, rest, body = z3.Const('pre',B), z3.Const('rest',B), z3.Const('body',B)
s = z3.Solver(); s.set('timeout', 20000)
n = z3.Length(vals)
s.add(z3.ForAll([j], z3.Implies(z3.And(0<=j,j<n), z3.And(0<=vals[j], vals[j]<65536))))
s.add(z3.Length(body)==2*n, z3.ForAll([j], z3.Implies(z3.And(0<=j,j<n), z3.And(body[2*j]==vals[j]/256, body[2*j+1]==vals[j]%256))))
W = z3.Concat(pre, body, rest); pl0 = z3.Length(pre)
s.add(z3.Length(value)==n, z3.ForAll([j], z3.Implies(z3.And(0<=j,j<n), value[j]==rd2(W,pl0+2*j))))
s.add(value != vals)
chk('roundtrip-ext', s)
