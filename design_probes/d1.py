import itertools, traceback
from cryptoparser.common.parse import ComposerBinary, ParserBinary, ByteOrder
from cryptoparser.tls.version import TlsProtocolVersion, TlsVersion
c = ComposerBinary(); c.compose_numeric(2**24, 3); print('3byte 2^24 ->', bytes(c.composed))
vs = [TlsProtocolVersion(v) for v in TlsVersion]
print(len(vs), 'versions; max=', max(vs))
bad = sum(1 for a,b,c in itertools.product(vs,repeat=3) if a<b and b<c and not a<c)
print('intransitive triples', bad)
tri = sum(1 for a,b in itertools.product(vs,repeat=2) if (a<b)+(a==b)+(a>b)!=1)
print('non-trichotomous pairs', tri)
from cryptoparser.tls.rdp import TPKT, COTPConnectionConfirm
for b in [b'\x03\x00\x00\x02xx', b'\x03\x00\x00\x00']:
    try: print('TPKT', b, TPKT.parse_immutable(b))
    except Exception as e: print('TPKT', b, repr(e))
cc = COTPConnectionConfirm(src_ref=1, user_data=b'ab')
print(type(COTPConnectionConfirm.parse_exact_size(cc.compose())).__name__)
from cryptoparser.tls.subprotocol import TlsAlertDescription, TlsHandshakeType
print(TlsAlertDescription.ACCESS_DENIED, TlsHandshakeType.EKT_KEY)
# parse_parsable item_size beyond buffer
from cryptoparser.tls.extension import TlsExtensionSessionTicket
from cryptoparser.ssh.key import SshHostKeyRSA
try:
    p = ParserBinary(b'\x00\x00\x00\x03ab'); 
    from cryptoparser.ssh.key import SshString
    from cryptoparser.tls.subprotocol import TlsApplicationDataMessage
    p.parse_parsable('x', TlsApplicationDataMessage, 4); print('n beyond', p.parsed_length, 'buflen 6')
except Exception as e: print(repr(e))
# ssh mpint truncated
try:
    p = ParserBinary(b'\x00\x00\x00\x05'); p.parse_ssh_mpint('x'); print(p['x'])
except Exception as e: print('mpint', repr(e))
