# induction proof of the monotonicity lemma itself: P(b): forall a<=b: off(a)<=off(b);  step P(b) -> P(b+1)
import z3, time
I = z3.IntSort(); off = z3.Function('off', I, I); ln = z3.Function('ln', I, I); N = z3.Int('N')
j, a, b = z3.Ints('j a b'); a0 = z3.Int('a0')
s = z3.Solver(); s.set('timeout', 20000)
s.add(z3.ForAll([j], z3.Implies(z3.And(0 <= j, j < N), z3.And(ln(j) >= 1, off(j+1) == off(j) + ln(j)))))
s.add(0 <= b, b < N, z3.ForAll([a], z3.Implies(z3.And(0 <= a, a <= b), off(a) <= off(b))))
s.add(0 <= a0, a0 <= b+1, z3.Not(off(a0) <= off(b+1)))
t=time.time(); print('mono-step', s.check(), round(time.time()-t,3))
