# probe: VectorParsable round-trip loop invariant with abstract variable-size items
import z3, time
Item = z3.DeclareSort('Item'); I = z3.IntSort(); A = z3.ArraySort(I, I); AI = z3.ArraySort(I, Item)
enc_n = z3.Function('enc_n', Item, I); enc_a = z3.Function('enc_a', Item, A)
items = z3.Const('items', AI); N = z3.Int('N')          # the original list
off = z3.Function('off', I, I)                           # prefix sums of encoded lengths
body_a = z3.Const('body_a', A)                           # flat body, length off(N)
j, i, k = z3.Ints('j i k')
ax = [N >= 0, off(0) == 0,
      z3.ForAll([j], z3.Implies(z3.And(0 <= j, j < N), z3.And(enc_n(items[j]) >= 1, off(j+1) == off(j) + enc_n(items[j])))),
      z3.ForAll([j, i], z3.Implies(z3.And(0 <= j, j < N, 0 <= i, i < enc_n(items[j])), body_a[off(j) + i] == z3.Select(enc_a(items[j]), i)))]
a_, b_ = z3.Ints('a_ b_')
ax.append(z3.ForAll([a_, b_], z3.Implies(z3.And(0 <= a_, a_ <= b_, b_ <= N), off(a_) <= off(b_))))
# monotonicity lemma off(j) <= off(N) for j<=N would need induction; instead carry it in the invariant.
# loop state after k iterations: unparsed = body[off(k):off(N)], out list = items[:k]
out = z3.Const('out', AI); out_n = z3.Int('out_n')
inv = lambda kk, o, on: z3.And(0 <= kk, kk <= N, on == kk, off(kk) <= off(N), z3.ForAll([j], z3.Implies(z3.And(0 <= j, j < kk), o[j] == items[j])))
# contract of item parse: given buffer u (len un) that starts with enc(x) => returns (x, enc_n(x)). We instantiate with x = items[k].
s = z3.Solver(); s.set('timeout', 30000)
s.add(*ax, inv(k, out, out_n))
un = off(N) - off(k)                     # len(unparsed)
s.add(un != 0)                           # loop guard: while unparsed_bytes
# need: k < N  (else un == 0)
s.push(); s.add(z3.Not(k < N)); t=time.time(); print('guard=>k<N', s.check(), round(time.time()-t,3)); s.pop()
# precondition of item contract: buffer starts with enc(items[k]): enc_n <= un and pointwise
i0 = z3.Int('i0')
s.push(); s.add(k < N, z3.Not(z3.And(enc_n(items[k]) <= un, z3.Implies(z3.And(0 <= i0, i0 < enc_n(items[k])), body_a[off(k) + i0] == z3.Select(enc_a(items[k]), i0)))))
t=time.time(); print('item-pre', s.check(), round(time.time()-t,3)); s.pop()
# after: out' = out ++ [items[k]], unparsed' = unparsed[enc_n:], invariant at k+1
out2 = z3.Store(out, out_n, items[k])
s.push(); s.add(k < N, enc_n(items[k]) <= un); 
j0 = z3.Int('j0')
goal = z3.And(k+1 <= N, out_n+1 == k+1, off(k+1) <= off(N), z3.Implies(z3.And(0 <= j0, j0 < k+1), out2[j0] == items[j0]),
              off(N) - off(k) - enc_n(items[k]) == off(N) - off(k+1))
s.add(z3.Not(goal)); t=time.time(); print('inv-step', s.check(), round(time.time()-t,3)); s.pop()
