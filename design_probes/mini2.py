# throwaway probe 2: loop invariants (havoc / assume / assert) in the AST meta-interpreter, on the real loops of parse.py
import ast, sys, time, itertools
import z3
import mini
from mini import *

class PathEnd(Exception): pass
class SRange:
    def __init__(s, start, stop, step): s.start, s.stop, s.step = start, stop, step

fresh_ctr = itertools.count()
def fresh_int(p='h'): return z3.Int('%s!%d' % (p, next(fresh_ctr)))
def fresh_seq(kind, p='h'):
    k = next(fresh_ctr); return SSeq(z3.Int('%s_n!%d' % (p, k)), z3.Const('%s_a!%d' % (p, k), A), kind)

def _range(*a):
    vals = [z3.simplify(ival(x)) for x in a]
    if all(z3.is_int_value(v) for v in vals): return range(*[v.as_long() for v in vals])
    if len(vals) == 1: vals = [z3.IntVal(0), vals[0], z3.IntVal(1)]
    if len(vals) == 2: vals.append(z3.IntVal(1))
    assert z3.is_int_value(vals[2]) and vals[2].as_long() > 0
    return SRange(*vals)
MODELS[range] = _range

INV = {}       # (qualname, loop ordinal) -> dict(inv=fn(env,k)->z3 Bool, modifies=[names])
OBL = []       # obligations of the current path

def oblige(name, goal):
    OBL.append((name, list(E.pc), goal))

def choose():
    b = z3.Bool('choice!%d' % next(fresh_ctr))
    return E.branch(b)

def loop_ordinal(fnode, st):
    loops = [n for n in ast.walk(fnode) if isinstance(n, (ast.For, ast.While))]
    loops.sort(key=lambda n: (n.lineno, n.col_offset))
    return loops.index(st)

def seq_append(seq):
    def app(x):
        nn = concat(seq, SSeq(z3.IntVal(1), z3.Lambda([mini._i], ival(x)), seq.kind))
        seq.n, seq.a = nn.n, nn.a
    return app

_old_getattr = mini.getattr_
def getattr2(o, name):
    if isinstance(o, SSeq) and name == 'append': return seq_append(o)
    return _old_getattr(o, name)
mini.getattr_ = getattr2

_old_call = mini.call
def call2(f, args, kw):
    if callable(f) and getattr(f, '__name__', '') == 'app': return f(*args)
    return _old_call(f, args, kw)
mini.call = call2

def st_For(s, st):
    it = s.ev(st.iter)
    if isinstance(it, SSeq) and z3.is_int_value(z3.simplify(it.n)):
        it = [SInt(it.at(k)) for k in range(z3.simplify(it.n).as_long())]
    if not isinstance(it, (SSeq, SRange)):
        for x in it:
            s.assign(st.target, x); s.block(st.body)
        return
    key = (s.f.__qualname__, loop_ordinal(fn_ast(s.f), st))
    spec = INV[key]
    if isinstance(it, SRange):
        n = z3.If(it.stop > it.start, (it.stop - it.start + it.step - 1) / it.step, 0)
        elem = lambda k: SInt(it.start + k * it.step)
    else:
        n = it.n; elem = lambda k: SInt(it.at(k))
    # make appended python lists symbolic sequences before havoc
    for v in spec['modifies']:
        if isinstance(s.env.get(v), list) and not s.env[v]: s.env[v] = SSeq(z3.IntVal(0), z3.K(z3.IntSort(), z3.IntVal(0)), 'list')
    oblige('inv-entry %s' % (key,), spec['inv'](s.env, z3.IntVal(0), n))
    step = choose()
    for v in spec['modifies']:
        old = s.env.get(v)
        s.env[v] = fresh_seq(old.kind, v) if isinstance(old, SSeq) else SInt(fresh_int(v))
    k = fresh_int('k')
    if step:
        E.pc.extend([k >= 0, k < n, spec['inv'](s.env, k, n)])
        s.assign(st.target, elem(k))
        s.block(st.body)
        oblige('inv-preserved %s' % (key,), spec['inv'](s.env, k + 1, n))
        raise PathEnd()
    else:
        E.pc.extend([n >= 0, spec['inv'](s.env, n, n)])
Frame.st_For = st_For

def explore2(thunk):
    stack = [[]]
    while stack:
        dec = stack.pop()
        mini.E = Engine(); globals()['E'] = mini.E; E.decisions = [list(d) for d in dec]
        OBL.clear()
        try: out = ('ret', thunk())
        except PyRaise as pr: out = ('raise', pr.exc)
        except PathEnd: out = ('end', None)
        except Infeasible: continue
        for kx in range(len(dec), len(E.decisions)):
            d, alt = E.decisions[kx]
            if alt: stack.append([list(x) for x in E.decisions[:kx]] + [[not d, False]])
        yield list(E.pc), out, list(OBL)

def discharge(name, pc, goal):
    s = z3.Solver(); s.set('timeout', 20000); s.add(*pc); s.add(z3.Not(goal))
    t = time.time(); r = s.check()
    print('   %-60s %s  %.3fs' % (name, 'PROVED' if r == z3.unsat else str(r).upper(), time.time() - t))
    return r == z3.unsat

if __name__ == '__main__':
    from cryptoparser.common.parse import ComposerBinary, ParserBinary
    j = z3.Int('j')
    def rd2(a, o): return z3.Select(a, o) * 256 + z3.Select(a, o + 1)
    # ---- invariant for ParserBinary._parse_numeric_array, loop 0 (item_size = 2, network order, converter int)
    def inv_parse(env, k, n):
        me = env['self']; P = me.f['_parsable']; pl = ival(me.f['_parsed_length']); v = env['value']
        return z3.And(v.n == k, z3.ForAll([j], z3.Implies(z3.And(0 <= j, j < k), v.at(j) == rd2(P.a, pl + 2 * j))))
    INV[('ParserBinary._parse_numeric_array', 0)] = dict(inv=inv_parse, modifies=['value', 'item_offset', 'item_bytes', 'item'])
    P = SSeq(z3.Int('P_n'), z3.Const('P_a', A)); pl0 = z3.Int('pl0'); num = z3.Int('num')
    base = [P.n >= 0, pl0 >= 0, pl0 <= P.n, num >= 0, z3.ForAll([j], z3.And(0 <= z3.Select(P.a, j), z3.Select(P.a, j) < 256))]
    def thunk():
        E.pc.extend(base)
        p = construct(ParserBinary, [P], {}); p.f['_parsed_length'] = SInt(pl0)
        res = mini.call(getattr2(p, '_parse_numeric_array'), ['x', SInt(num), 2, int], {})
        return p, res
    print('ParserBinary._parse_numeric_array (item_size=2, NETWORK)')
    ok = True; npath = 0
    for pc, out, obl in explore2(thunk):
        npath += 1
        for name, opc, goal in obl: ok &= discharge(name, opc, goal)
        kind, val = out
        if kind == 'ret':
            p, (value, consumed) = val
            j0 = z3.Int('j0')
            post = z3.And(pl0 + 2 * num <= P.n, ival(consumed) == 2 * num, value.n == num, ival(p.f['_parsed_length']) == pl0,
                          z3.Implies(z3.And(0 <= j0, j0 < num), value.at(j0) == rd2(P.a, pl0 + 2 * j0)))
            ok &= discharge('post(return)', pc, post)
        elif kind == 'raise':
            bn = val.f.get('bytes_needed')
            post = z3.And(val.cls.__name__ == 'NotEnoughData', pl0 + 2 * num > P.n, ival(bn) == 2 * num - (P.n - pl0)) if val.cls.__name__ == 'NotEnoughData' else z3.BoolVal(False)
            ok &= discharge('post(raise %s)' % val.cls.__name__, pc, post)
    print('  paths', npath, 'ALL PROVED' if ok else 'FAILED')

    # ---- invariant for ComposerBinary._compose_numeric_array, loop 0 (item_size 2)
    def inv_comp(env, k, n):
        vals = env['values']; cb = env['composed_bytes']
        return z3.And(cb.n == 2 * k,
                      z3.ForAll([j], z3.Implies(z3.And(0 <= j, j < k), z3.And(0 <= vals.at(j), vals.at(j) < 65536,
                                 cb.at(2 * j) == vals.at(j) / 256, cb.at(2 * j + 1) == vals.at(j) % 256))))
    INV[('ComposerBinary._compose_numeric_array', 0)] = dict(inv=inv_comp, modifies=['composed_bytes', 'value', 'packed_bytes'])
    V = SSeq(z3.Int('V_n'), z3.Const('V_a', A), 'list'); C0 = SSeq(z3.Int('C_n'), z3.Const('C_a', A), 'bytes')
    def thunk2():
        E.pc.extend([V.n >= 0, C0.n >= 0])
        c = construct(ComposerBinary, [], {}); c.f['_composed'] = C0
        mini.call(getattr2(c, '_compose_numeric_array'), [V, 2], {})
        return c
    print('ComposerBinary._compose_numeric_array (item_size=2, NETWORK)')
    ok = True; npath = 0
    for pc, out, obl in explore2(thunk2):
        npath += 1
        for name, opc, goal in obl: ok &= discharge(name, opc, goal)
        kind, val = out
        j0 = z3.Int('j0')
        if kind == 'ret':
            comp = val.f['_composed']
            post = z3.And(comp.n == C0.n + 2 * V.n,
                          z3.Implies(z3.And(0 <= j0, j0 < C0.n), comp.at(j0) == C0.at(j0)),
                          z3.Implies(z3.And(0 <= j0, j0 < V.n), z3.And(0 <= V.at(j0), V.at(j0) < 65536, comp.at(C0.n + 2 * j0) == V.at(j0) / 256, comp.at(C0.n + 2 * j0 + 1) == V.at(j0) % 256)))
            ok &= discharge('post(return)', pc, post)
        elif kind == 'raise':
            # rejected rather than truncated: some value out of range (witness: the havocked iteration's value)
            print('   raise path:', val.cls.__name__)
    print('  paths', npath, 'ALL PROVED' if ok else 'FAILED')
