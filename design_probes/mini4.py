# probe 4: K2 on TPKT (expected to fail on the unchanged tree) with native replay of the counter-model
import z3, time
import mini
from mini import *
from cryptoparser.tls.rdp import TPKT
j = z3.Int('j')
X = SSeq(z3.Int('X_n'), z3.Const('X_a', A))
def th():
    mini.E.pc.extend([X.n >= 0, z3.ForAll([j], z3.And(0 <= X.at(j), X.at(j) < 256))])
    return mini.call(TPKT.parse_immutable, [X], {})
for pc, (kind, val), nq in explore(th):
    if kind != 'ret':
        print('raises', val.cls.__name__); continue
    obj, n = val
    s = z3.Solver(); s.add(*[c for c in pc if not z3.is_quantifier(c)])     # quantifier-free for a model
    s.add(X.n <= 8, *[z3.And(0 <= X.at(i), X.at(i) < 256) for i in range(8)])
    s.add(z3.Not(z3.And(ival(n) >= 1, ival(n) <= X.n)))
    r = s.check(); print('K2 on success path:', 'PROVED' if r == z3.unsat else r)
    if r == z3.sat:
        mdl = s.model(); ln = mdl.eval(X.n).as_long()
        b = bytes(mdl.eval(X.at(i), model_completion=True).as_long() for i in range(ln))
        print('  counter-model buffer', b, ' native replay ->', TPKT.parse_immutable(b))
