# probe 5: C17 transitivity of the real TlsProtocolVersion.__lt__ over symbolic members
import z3, time, itertools
import mini
from mini import *
from cryptoparser.tls.version import TlsProtocolVersion, TlsVersion
N = len(TlsVersion)
ia, ib, ic = z3.Ints('ia ib ic')
def lt_paths(i1, i2):
    """explore a.__lt__(b) symbolically; return z3 formula for 'a<b' as disjunction over paths"""
    def th():
        mini.E.pc.extend([i1 >= 0, i1 < N, i2 >= 0, i2 < N])
        a = construct(TlsProtocolVersion, [SEnum(TlsVersion, i1)], {}); b = construct(TlsProtocolVersion, [SEnum(TlsVersion, i2)], {})
        r = mini.call(getattr_(a, '__lt__'), [b], {})
        return r
    disj = []
    for pc, (kind, val), nq in explore(th):
        assert kind == 'ret'
        res = val.e if isinstance(val, SBool) else z3.BoolVal(bool(val))
        disj.append(z3.And(*pc, res))
    return z3.Or(*disj)
t0 = time.time()
# SEnum == concrete member comparisons are needed: patch compare for Eq/NotEq on SEnum vs member
_old = mini.compare
def compare(op, l, r):
    import ast
    if op in (ast.Eq, ast.NotEq) and (isinstance(l, SEnum) or isinstance(r, SEnum)) and not (isinstance(l, (SInt, int)) or isinstance(r, (SInt, int))):
        def idx(x): return x.idx if isinstance(x, SEnum) else z3.IntVal(list(type(x)).index(x))
        e = idx(l) == idx(r)
        return SBool(e if op is ast.Eq else z3.Not(e))
    return _old(op, l, r)
mini.compare = compare
Lab, Lbc, Lac = lt_paths(ia, ib), lt_paths(ib, ic), lt_paths(ia, ic)
s = z3.Solver(); s.add(Lab, Lbc, z3.Not(Lac))
r = s.check(); print('transitivity:', 'PROVED' if r == z3.unsat else r, round(time.time() - t0, 2), 's')
if r == z3.sat:
    m = s.model(); ms = list(TlsVersion); a, b, c = (TlsProtocolVersion(ms[m[x].as_long()]) for x in (ia, ib, ic))
    print('  counter-model:', a, '<', b, '<', c, ' native replay: a<b', a < b, 'b<c', b < c, 'a<c', a < c)
