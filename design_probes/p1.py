import z3, time
B = z3.SeqSort(z3.IntSort())   # bytes as Seq Int with 0<=b<256 side constraints
def unit(x): return z3.Unit(x)
def be2(v): return z3.Concat(unit(v/256), unit(v%256))
def rd2(s,o): return s[o]*256 + s[o+1]
ct, ver, frag, rest = z3.Int('ct'), z3.Int('ver'), z3.Const('frag',B), z3.Const('rest',B)
L = z3.Length(frag)
wire = z3.Concat(unit(ct), be2(ver), be2(L), frag, rest)
s = z3.Solver()
s.add(0<=ct, ct<256, 0<=ver, ver<65536, L<65536)
# parse: header check
pl = 0
s.push()
# obligation 1: header check passes (len >= 5)
s.add(z3.Not(z3.Length(wire) >= 5))
t=time.time(); print('hdr', s.check(), time.time()-t); s.pop()
# content type
c = wire[0]; v = rd2(wire,1); fl = rd2(wire,3)
s.push(); s.add(z3.Not(z3.And(c==ct, v==ver, fl==L)))
t=time.time(); print('fields', s.check(), time.time()-t); s.pop()
# parse_raw: unparsed_length >= fl, slice equals frag
s.push(); s.add(z3.Not(z3.And(z3.Length(wire)-5 >= fl, z3.SubSeq(wire,5,fl)==frag)))
t=time.time(); print('frag', s.check(), time.time()-t); s.pop()
