# confirm a few more suspected defects natively (for DESIGN's expected-findings table)
import datetime, traceback
from cryptoparser.tls.subprotocol import *
from cryptoparser.tls.extension import *
from cryptoparser.tls.record import TlsRecord, SslRecord
from cryptoparser.ssh.record import SshRecordInit
from cryptoparser.ssh.subprotocol import SshProtocolMessage, SshUnimplementedMessage
from cryptoparser.dnsrec.record import DnsRecordRrsig, DnsRecordTxt
def t(name, f):
    try: print(name, '->', f())
    except Exception as e: print(name, 'EXC', type(e).__name__, e)
t('ssh banner empty sw', lambda: SshProtocolMessage.parse_exact_size(b'SSH-2.0-\n'))
t('sni non idna', lambda: TlsExtensionServerNameClient.parse_exact_size(b'\x00\x00\x00\x06\x00\x04\x00\x00\x01\xff'))
hello = TlsHandshakeClientHello(cipher_suites=[TlsCipherSuite.TLS_RSA_WITH_AES_128_CBC_SHA]*((2**16-2)//2 - 1), fallback_scsv=True)
before = len(hello.cipher_suites)
t('hello compose at bound', lambda: len(hello.compose()))
print('cipher_suites len before/after', before, len(hello.cipher_suites))
buf = bytearray(b'hello'); m = TlsApplicationDataMessage.parse_exact_size(buf); buf[0] = 0x58; print('alias', m.data)
a = TlsExtensionSessionTicket(); a.session_ticket += b'x'; print('shared default', TlsExtensionSessionTicket().session_ticket)
rec = SshRecordInit(SshUnimplementedMessage(7)).compose()
print('ssh rec len', len(rec), rec)
bad = bytearray(rec); bad[3] += 8; bad += b'\x00'*8
t('ssh declared+8', lambda: SshRecordInit.parse_immutable(bytes(bad)))
t('txt multi', lambda: DnsRecordTxt.parse_exact_size(b'\x02ab\x01c').compose())
v = TlsSessionIdVector([1,2,3,4]); del v[0:2]; print('slice del', list(v), v._items_size)
