# probe 3: K7 (proper prefix => NotEnoughData(k), 1<=k<=missing) and K2/K8 for TlsRecord on the real source
import z3, time
import mini
from mini import *
from cryptoparser.tls.record import TlsRecord
from cryptoparser.tls.subprotocol import TlsContentType
from cryptoparser.tls.version import TlsProtocolVersion, TlsVersion
frag = SSeq(z3.Int('frag_n'), z3.Const('frag_a', A)); m = z3.Int('m')
ct = SEnum(TlsContentType, z3.Int('ct_idx')); ver = SEnum(TlsVersion, z3.Int('ver_idx'))
j = z3.Int('j')
base = [frag.n >= 0, ct.idx >= 0, ct.idx < len(TlsContentType), ver.idx >= 0, ver.idx < len(TlsVersion),
        z3.ForAll([j], z3.And(0 <= frag.at(j), frag.at(j) < 256))]
def thunk():
    mini.E.pc.extend(base)
    pv = construct(TlsProtocolVersion, [ver], {})
    rec = construct(TlsRecord, [], dict(fragment=frag, protocol_version=pv, content_type=ct))
    wire = mini.call(getattr_(rec, 'compose'), [], {})
    mini.E.pc.extend([m >= 0, m < wire.n])
    buf = slice_(wire, z3.IntVal(0), m)
    try:
        r = mini.call(TlsRecord.parse_immutable, [buf], {})
        return ('accepted-prefix', wire, r)
    except PyRaise as pr:
        return ('raised', wire, pr.exc)
t0 = time.time(); n = 0; ok = True
for pc, out, nq in explore(thunk):
    n += 1
    kind, val = out
    if kind == 'raise':   # compose itself raised (outside domain)
        continue
    tag, wire, x = val
    s = z3.Solver(); s.add(*pc)
    if tag == 'accepted-prefix':
        print('path', n, 'ACCEPTS A PROPER PREFIX: feasible?', s.check()); ok = False; continue
    if x.cls.__name__ != 'NotEnoughData':
        print('path', n, 'raises', x.cls.__name__, 'feasible?', s.check()); ok &= (s.check() == z3.unsat); continue
    k = ival(x.f['bytes_needed'])
    s.add(z3.Not(z3.And(k >= 1, k <= wire.n - m))); r = s.check()
    ok &= (r == z3.unsat)
print('K7 TlsRecord: paths', n, 'ALL PROVED' if ok else 'FAILED', round(time.time() - t0, 2), 's')

# K2 + K8 on arbitrary buffers: two buffers agreeing on the first n bytes
def arb(name): return SSeq(z3.Int(name + '_n'), z3.Const(name + '_a', A))
X = arb('X'); Y = arb('Y')
def run(buf):
    def th():
        mini.E.pc.extend([buf.n >= 0, z3.ForAll([j], z3.And(0 <= buf.at(j), buf.at(j) < 256))])
        return mini.call(TlsRecord.parse_immutable, [buf], {})
    return [(pc, out) for pc, out, nq in explore(th)]
t0 = time.time()
px = run(X); py = run(Y)
okk = True; cnt = 0
def eidx(x): return x.idx if isinstance(x, SEnum) else z3.IntVal(list(type(x)).index(x))
for pc, (kind, val) in px:
    if kind != 'ret': continue
    obj, nn = val; nx = ival(nn)
    # K2
    s = z3.Solver(); s.add(*pc); s.add(z3.Not(z3.And(nx >= 1, nx <= X.n, nx == 5 + X.at(3) * 256 + X.at(4)))); okk &= s.check() == z3.unsat
    # K8: Y agrees with X on [0,n), len(Y) >= n  =>  some success path of Y with equal result
    agree = z3.And(Y.n >= nx, z3.ForAll([j], z3.Implies(z3.And(0 <= j, j < nx), Y.at(j) == X.at(j))))
    disj = []
    for pcy, (kindy, valy) in py:
        if kindy != 'ret': continue
        objy, ny = valy; j0 = z3.Int('j0')
        same = z3.And(ival(ny) == nx, eidx(objy.f['content_type']) == eidx(obj.f['content_type']),
                      eidx(objy.f['protocol_version'].f['version']) == eidx(obj.f['protocol_version'].f['version']),
                      objy.f['fragment'].n == obj.f['fragment'].n,
                      z3.ForAll([j], z3.Implies(z3.And(0 <= j, j < obj.f['fragment'].n), objy.f['fragment'].at(j) == obj.f['fragment'].at(j))))
        disj.append(z3.And(*pcy, same))
    s = z3.Solver(); s.set('timeout', 60000); s.add(*pc, agree, Y.n >= 0, z3.ForAll([j], z3.And(0 <= Y.at(j), Y.at(j) < 256)), z3.Not(z3.Or(*disj))); r = s.check(); cnt += 1
    okk &= (r == z3.unsat)
    if r != z3.unsat: print('K8 path', cnt, r)
print('K2+K8 TlsRecord: success paths', cnt, 'ALL PROVED' if okk else 'FAILED', round(time.time() - t0, 2), 's')
