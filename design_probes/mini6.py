# probe 6: call-by-contract + ArrayBase invariant: TlsSessionIdVector (Vector, item_size 1, <0..32>) K3 round trip
# for a symbolic-length item list, using CONTRACTS for ParserBinary._parse_numeric_array / ComposerBinary._compose_numeric_array
# (both verified against their bodies in mini2.py) instead of inlining them.
import ast, time, itertools
import z3
import mini, mini2
from mini import *
from mini2 import INV, OBL, oblige, explore2, discharge, fresh_int, fresh_seq, getattr2, PathEnd

from cryptoparser.common.parse import ComposerBinary, ParserBinary, ByteOrder
from cryptoparser.common.base import ArrayBase, Vector
from cryptoparser.tls.subprotocol import TlsSessionIdVector
from cryptoparser.common.exception import NotEnoughData
from cryptodatahub.common.exception import InvalidValue

j = z3.Int('j')
CONTRACTS = {}

def dec_be(a, o, w):
    e = z3.IntVal(0)
    for k in range(w): e = e * 256 + z3.Select(a, o + k)
    return e

def c_parse_numeric_array(self, name, item_num, item_size, item_numeric_class):
    assert item_numeric_class is int and isinstance(item_size, int)
    P = self.f['_parsable']; pl = ival(self.f['_parsed_length']); n = ival(item_num)
    if mini.E.branch(pl + n * item_size > P.n):
        raise PyRaise(mk_exc(NotEnoughData, bytes_needed=SInt(n * item_size - (P.n - pl))))
    v = fresh_seq('list', 'pna')
    mini.E.pc.extend([v.n == n, z3.ForAll([j], z3.Implies(z3.And(0 <= j, j < n), v.at(j) == dec_be(P.a, pl + j * item_size, item_size)))])
    return (v, SInt(n * item_size))
CONTRACTS[ParserBinary._parse_numeric_array] = c_parse_numeric_array

def c_compose_numeric_array(self, values, item_size):
    assert isinstance(item_size, int)
    if isinstance(values, list): values = SSeq(z3.IntVal(len(values)), z3.K(z3.IntSort(), z3.IntVal(0)) if not values else
                                               (lambda a: a)(__import__('functools').reduce(lambda a, kv: z3.Store(a, kv[0], ival(kv[1])), enumerate(values), z3.K(z3.IntSort(), z3.IntVal(0)))), 'list')
    old = self.f['_composed']
    if not isinstance(old, SSeq): old = conc_seq(old)
    inrange = z3.ForAll([j], z3.Implies(z3.And(0 <= j, j < values.n), z3.And(0 <= values.at(j), values.at(j) < 256 ** item_size)))
    if not mini.E.branch(inrange):
        raise PyRaise(mk_exc(InvalidValue, 0, int))      # _composed unchanged
    new = fresh_seq('bytes', 'cna')
    w = item_size
    body = [new.n == old.n + w * values.n,
            z3.ForAll([j], z3.Implies(z3.And(0 <= j, j < old.n), new.at(j) == old.at(j)))]
    for k in range(w):
        body.append(z3.ForAll([j], z3.Implies(z3.And(0 <= j, j < values.n), new.at(old.n + w * j + k) == (values.at(j) / 256 ** (w - 1 - k)) % 256)))
    mini.E.pc.extend(body)
    self.f['_composed'] = new
CONTRACTS[ComposerBinary._compose_numeric_array] = c_compose_numeric_array

_old_run = mini.run_fn
def run_fn2(f, args, kw):
    if f in CONTRACTS:
        node = fn_ast(f); params = [a.arg for a in node.args.args]
        full = list(args) + [kw[p] for p in params[len(args):] if p in kw]
        return CONTRACTS[f](*full)
    return _old_run(f, args, kw)
mini.run_fn = run_fn2

# true division + int(): int(a / b) == a // b for 0 <= a < 2**53 (assumption recorded)
_old_binop = mini.binop
def binop2(op, l, r):
    if op is ast.Div and (isinstance(l, SInt) or isinstance(r, SInt)):
        return SInt(ival(l) / ival(r))          # exact quotient carried as floor; only consumed by int()
    return _old_binop(op, l, r)
mini.binop = binop2

# iteration protocol for SObj(ArrayBase) -> its _items ; isinstance(SSeq list, bytes) False
def st_For3(s, st):
    it = s.ev(st.iter)
    if isinstance(it, SObj) and issubclass(it.cls, ArrayBase):
        st2 = ast.For(target=st.target, iter=ast.Constant(value=None), body=st.body, orelse=[], lineno=st.lineno, col_offset=st.col_offset)
        raise NotImplementedError('iteration over ArrayBase')
    return mini2.st_For(s, st)

# ArrayBase.__attrs_post_init__ loop invariant (numeric items: get_item_size == item_size == 1)
def inv_arr(env, k, n):
    me = env['self']; items = env['items']; cur = me.f['_items']
    return z3.And(cur.n == k, ival(me.f['_items_size']) == k,
                  z3.ForAll([j], z3.Implies(z3.And(0 <= j, j < k), cur.at(j) == items.at(j))))
INV[('ArrayBase.__attrs_post_init__', 0)] = dict(inv=inv_arr, modifies=['item'], heap=[('self', '_items', 'seq'), ('self', '_items_size', 'int')])

# extend mini2's loop handling with heap havoc
_old_for = mini2.st_For
def st_For_heap(s, st):
    it = s.ev(st.iter)
    if not isinstance(it, (SSeq, mini2.SRange)) or (isinstance(it, SSeq) and z3.is_int_value(z3.simplify(it.n))):
        return _old_for(s, st)
    key = (s.f.__qualname__, mini2.loop_ordinal(fn_ast(s.f), st)); spec = INV[key]
    if 'heap' not in spec: return _old_for(s, st)
    n = it.n; elem = lambda k: SInt(it.at(k))
    for (o, fld, kind) in spec['heap']:
        cur = s.env[o].f[fld]
        if isinstance(cur, list) and not cur: s.env[o].f[fld] = SSeq(z3.IntVal(0), z3.K(z3.IntSort(), z3.IntVal(0)), 'list')
    oblige('inv-entry %s' % (key,), spec['inv'](s.env, z3.IntVal(0), n))
    step = mini2.choose()
    for (o, fld, kind) in spec['heap']:
        s.env[o].f[fld] = fresh_seq('list', fld) if kind == 'seq' else SInt(fresh_int(fld))
    k = fresh_int('k')
    if step:
        mini.E.pc.extend([k >= 0, k < n, spec['inv'](s.env, k, n)])
        s.assign(st.target, elem(k)); s.block(st.body)
        oblige('inv-preserved %s' % (key,), spec['inv'](s.env, k + 1, n))
        raise PathEnd()
    mini.E.pc.extend([n >= 0, spec['inv'](s.env, n, n)])
Frame.st_For = st_For_heap

# models
MODELS[six.iterbytes] = lambda b: b
_oi = MODELS[isinstance]
def _isinstance2(o, t):
    if isinstance(o, SSeq) and o.kind == 'list': return False if t in (bytes, six.binary_type) else _oi(o, t)
    return _oi(o, t)
MODELS[isinstance] = _isinstance2
def _int2(x):
    return x if isinstance(x, SInt) else int(x)
MODELS[int] = _int2
MODELS[attr.validate] = lambda o: None       # validators already run by construct()

if __name__ == '__main__':
    items = SSeq(z3.Int('it_n'), z3.Const('it_a', A), 'list'); rest = SSeq(z3.Int('rest_n'), z3.Const('rest_a', A))
    base = [items.n >= 0, rest.n >= 0, z3.ForAll([j], z3.And(0 <= rest.at(j), rest.at(j) < 256))]
    def thunk():
        mini.E.pc.extend(base)
        phase = ['construct']
        try:
            v = construct(TlsSessionIdVector, [items], {})
            phase[0] = 'compose'
            wire = mini.call(getattr2(v, 'compose'), [], {})
        except PyRaise as pr:
            return ('outside-domain', phase[0], pr.exc)
        phase[0] = 'parse'
        buf = concat(wire, rest)
        obj, n = mini.call(TlsSessionIdVector.parse_immutable, [buf], {})
        return ('rt', v, wire, obj, n)
    t0 = time.time(); ok = True; np_ = 0
    for pc, out, obl in explore2(thunk):
        np_ += 1
        for name, opc, goal in obl: ok &= discharge(name, opc, goal)
        kind, val = out
        if kind == 'end': continue
        if kind == 'raise':
            s = z3.Solver(); s.add(*pc); r = s.check()
            print('   PARSE PHASE RAISES', val.cls.__name__, 'feasible:', r); ok &= (r == z3.unsat); continue
        if val[0] == 'outside-domain':
            print('   outside domain (%s raises %s)' % (val[1], val[2].cls.__name__)); continue
        _, v, wire, obj, n = val
        j0 = z3.Int('j0')
        goal = z3.And(ival(n) == wire.n, obj.f['_items'].n == items.n, ival(obj.f['_items_size']) == ival(v.f['_items_size']),
                      z3.Implies(z3.And(0 <= j0, j0 < items.n), obj.f['_items'].at(j0) == items.at(j0)))
        ok &= discharge('K3 round trip', pc, goal)
    print('TlsSessionIdVector K3: paths', np_, 'ALL PROVED' if ok else 'FAILED', round(time.time() - t0, 2), 's')
