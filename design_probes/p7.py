import z3, time
I = z3.IntSort(); A = z3.ArraySort(I, I)
def chk(name, s):
    t=time.time(); r=s.check(); print(name, r, round(time.time()-t,3))
# bev(a, n): big-endian value of first n bytes
bev = z3.Function('bev', A, I, I)
a = z3.Const('a', A); n, k = z3.Ints('n k'); x = z3.Const('x', A); m = z3.Int('m')
defax = z3.ForAll([x, m], z3.And(bev(x, 0) == 0, z3.Implies(m > 0, bev(x, m) == 256 * bev(x, m - 1) + x[m - 1])))
# _parse_mpint loop step: value' = (value << 32) + unpack('>I', p[4k:4k+4]);  inv: value == bev(p, 4k)
p = z3.Const('p', A); value = z3.Int('value')
s = z3.Solver(); s.set('timeout', 20000)
s.add(defax, k >= 0, value == bev(p, 4 * k))
part = ((p[4*k] * 256 + p[4*k+1]) * 256 + p[4*k+2]) * 256 + p[4*k+3]
s.add(z3.Not(value * 2**32 + part == bev(p, 4 * (k + 1))))
chk('mpint-parse-step', s)
# key tag: ksum(a, m) = sum_{i<m} (i even ? a[i]*256 : a[i])
ks = z3.Function('ks', A, I, I)
kdef = z3.ForAll([x, m], z3.And(ks(x, 0) == 0, z3.Implies(m > 0, ks(x, m) == ks(x, m - 1) + z3.If((m - 1) % 2 == 0, x[m - 1] * 256, x[m - 1]))))
pl, tag = z3.Ints('pl tag')
s = z3.Solver(); s.set('timeout', 20000)
s.add(kdef, pl >= 0, pl % 2 == 0, tag == ks(a, pl))
s.add(z3.Not(tag + a[pl] * 256 + a[pl + 1] == ks(a, pl + 2)))
chk('keytag-step', s)
s = z3.Solver(); s.set('timeout', 20000)
s.add(kdef, pl >= 0, pl % 2 == 0, tag == ks(a, pl), z3.Not(tag + a[pl] * 256 == ks(a, pl + 1)))   # odd trailing byte: RFC adds a[i]<<8 for even i
chk('keytag-odd-tail(RFC)', s)
s = z3.Solver(); s.set('timeout', 20000)
s.add(kdef, pl >= 0, pl % 2 == 0, tag == ks(a, pl), 0 < a[pl], a[pl] < 256, z3.Not(tag + a[pl] == ks(a, pl + 1)))  # what the code does: parse_numeric(1) adds a[i]
chk('keytag-odd-tail(code) expect sat', s)
